#!/usr/bin/env python3
"""Regenerates /verif/MANIFEST.json from property_map.json and claims.json."""
import json
import os
import subprocess

V = os.path.dirname(os.path.abspath(__file__))
pm = json.load(open(os.path.join(V, "property_map.json")))
claims = json.load(open(os.path.join(V, "claims.json")))
props = [json.loads(l) for l in open(os.path.join(V, "properties.jsonl"))]

commits = subprocess.run(["git", "-C", "/repo", "log", "--format=%H %s"], capture_output=True, text=True).stdout.splitlines()
hook_commits = [c.split()[0] for c in commits if c.split(" ", 1)[1].startswith("verif:")]

checks = []
na = []
for p in props:
    pid = p["id"]
    c = claims.get(pid, {})
    if pid in pm and c.get("claimed", False):
        checks.append({
            "property_id": pid,
            "quick_cmd": f"./check {pid} --tier quick",
            "thorough_cmd": f"./check {pid} --tier thorough",
            "evidence_file": f"/verif/evidence/{pid}.json",
            "replay_cmd_template": f"./check {pid} --replay {{path}}",
            "engine": "cffvc",
            "level_claimed": {"category": pm[pid].get("level", "proof"), "text": c["text"], "design_ref": c.get("design_ref", "DESIGN.md section 6")},
            "level_note": c["note"],
            "technique": c.get("technique", "contract-based deductive verification: weakest-precondition style VCs generated from go/ssa of the real code against //@ contracts, discharged by z3/cvc5"),
        })
    else:
        na.append({"property_id": pid, "reason": c.get("na_reason", "not decided by the machinery built so far")})

m = {
    "version": 1,
    "setup_cmd": "cd /verif/engine && GOFLAGS=-mod=vendor GOPROXY=off GOSUMDB=off GOTOOLCHAIN=local go build -o /verif/bin/cffvc ./cmd/cffvc",
    "hooks": {
        "guard": "verif",
        "enable": "go build tag 'verif' selects comment-only contract files (*/contracts_verif.go); cffvc loads /repo with -tags verif",
        "baseline_off_cmd": "for m in . ./internal/tests; do (cd /repo/$m && GOFLAGS=-mod=mod GOPROXY=off GOSUMDB=off go test -json -vet=off -count=1 -timeout 25m ./...); done",
        "source_commits": hook_commits,
        "add_only": True,
    },
    "engines": [{"name": "cffvc", "path": "/verif/engine", "serves_properties": [c["property_id"] for c in checks],
                 "kind_free_text": "VC generator over go/ssa (symbolic execution with loop cut points, call contracts, defer/panic/recover, rely/guarantee channel hooks) + z3/z3-new/cvc5 race"}],
    "checks": checks,
    "not_applicable": na,
    "notes": "Contracts live in /repo/*/contracts_verif.go (build tag verif, comments only). ./check <id> runs the passes, compares with baseline_obligations.json and known_findings.json, writes evidence/<id>.json.",
}
json.dump(m, open(os.path.join(V, "MANIFEST.json"), "w"), indent=1)
print("checks:", len(checks), "not_applicable:", len(na))
