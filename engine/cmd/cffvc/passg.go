package main

import (
	"fmt"
	"go/ast"
	"go/parser"
	"go/scanner"
	"go/token"
	"go/types"
	"os"
	"os/exec"
	"path/filepath"
	"regexp"
	"sort"
	"strings"
	"time"

	"cffvc/vc"

	"golang.org/x/tools/go/packages"
	"golang.org/x/tools/go/ssa"
)

// Pass G: verification of generated instances.
//
// On every run the cff binary is built from the working tree, the corpus
// (the repository's own directive programs plus /verif/corpus) is generated
// afresh in a scratch copy, the *output* packages are loaded, and every
// directive wrapper and every job closure in them is checked against its role
// contract (/repo/internal/contracts_templates_verif.go).

var hoistedName = regexp.MustCompile(`^_\d+_\d+$`)

type gen struct {
	repo    string
	scratch string
	work    string // scratch copy of the repository
	log     []string
}

func run(dir string, env []string, name string, args ...string) (string, error) {
	cmd := exec.Command(name, args...)
	cmd.Dir = dir
	cmd.Env = append(os.Environ(), "GOFLAGS=-mod=mod", "GOPROXY=off", "GOSUMDB=off", "GOTOOLCHAIN=local")
	cmd.Env = append(cmd.Env, env...)
	out, err := cmd.CombinedOutput()
	return string(out), err
}

// generate copies the repository to scratch, adds the extra corpus, builds cff
// from that copy and runs it over internal/tests. It returns the directory of
// the generated module.
func generate(repo, scratch, corpus string, mode string, extra []string, patterns ...string) (*gen, error) {
	os.MkdirAll(scratch, 0o755)
	g := &gen{repo: repo, scratch: scratch, work: filepath.Join(scratch, "repo")}
	if out, err := run("/", nil, "rsync", "-a", "--exclude", ".git", "--exclude", "/out", repo+"/", g.work+"/"); err != nil {
		return nil, fmt.Errorf("copy repo: %v: %s", err, out)
	}
	tests := filepath.Join(g.work, "internal", "tests")
	if corpus != "" {
		for _, c := range strings.Split(corpus, ",") {
			if c == "" {
				continue
			}
			ents, err := os.ReadDir(c)
			if err != nil {
				continue
			}
			for _, e := range ents {
				if !e.IsDir() {
					continue
				}
				dst := filepath.Join(tests, "zzcorpus", e.Name())
				os.MkdirAll(filepath.Dir(dst), 0o755)
				if out, err := run("/", nil, "rsync", "-a", filepath.Join(c, e.Name())+"/", dst+"/"); err != nil {
					return nil, fmt.Errorf("copy corpus: %v: %s", err, out)
				}
			}
		}
	}
	// remove checked-in generated files so that only fresh output is verified
	filepath.Walk(tests, func(p string, info os.FileInfo, err error) error {
		if err == nil && !info.IsDir() && (strings.HasSuffix(p, "_gen.go") || strings.HasSuffix(p, "_gen_test.go")) {
			os.Remove(p)
		}
		return nil
	})
	cff := filepath.Join(scratch, "cff")
	if out, err := run(g.work, []string{"GOCACHE=" + goCache()}, "go", "build", "-o", cff, "./cmd/cff"); err != nil {
		return nil, fmt.Errorf("build cff from the working tree: %v: %s", err, out)
	}
	args := []string{"-tags", "cff"}
	if mode != "" && mode != "base" {
		args = append(args, "-genmode", mode)
	}
	args = append(args, extra...)
	if len(patterns) == 0 {
		patterns = []string{"./..."}
	}
	// cff takes one import path per invocation
	for _, pat := range patterns {
		out, err := run(tests, nil, cff, append(append([]string(nil), args...), pat)...)
		g.log = append(g.log, strings.TrimSpace(out))
		if err != nil {
			return g, fmt.Errorf("cff failed on the corpus: %v: %s", err, lastLines(out, 15))
		}
	}
	return g, nil
}

func goCache() string {
	if c := os.Getenv("GOCACHE"); c != "" {
		return c
	}
	out, err := exec.Command("go", "env", "GOCACHE").Output()
	if err != nil {
		return filepath.Join(os.TempDir(), "gocache")
	}
	return strings.TrimSpace(string(out))
}

func lastLines(s string, n int) string {
	ls := strings.Split(strings.TrimSpace(s), "\n")
	if len(ls) > n {
		ls = ls[len(ls)-n:]
	}
	return strings.Join(ls, "\n")
}

// wrapper describes one generated directive body.
type wrapper struct {
	fn       *ssa.Function
	kind     string // flow | parallel
	name     string
	closures []*jobClosure
}

type jobClosure struct {
	fn   *ssa.Function
	role string
	varName string
}

func isSchedMethod(c *ssa.CallCommon, name string) bool {
	if c.IsInvoke() {
		return false
	}
	f, ok := c.Value.(*ssa.Function)
	if !ok {
		return false
	}
	return f.Name() == name && f.Pkg != nil && f.Pkg.Pkg.Path() == "go.uber.org/cff/scheduler"
}

func isCffFunc(c *ssa.CallCommon, name string) bool {
	if c.IsInvoke() {
		return false
	}
	f, ok := c.Value.(*ssa.Function)
	if !ok {
		return false
	}
	return f.Name() == name && f.Pkg != nil && f.Pkg.Pkg.Path() == "go.uber.org/cff"
}

// findWrappers locates directive wrappers: function literals that call
// (*scheduler.Scheduler).Wait, and classifies the job closures they enqueue.
func findWrappers(lr *vc.LoadResult, modPrefix string) []*wrapper {
	var ws []*wrapper
	for _, fn := range lr.Funcs {
		pkg := fn.Pkg
		for p := fn; pkg == nil && p != nil; p = p.Parent() {
			pkg = p.Pkg
		}
		if pkg == nil || !strings.HasPrefix(pkg.Pkg.Path(), modPrefix) {
			continue
		}
		if fn.Synthetic != "" && !strings.Contains(fn.Synthetic, "instance") {
			continue
		}
		hasWait := false
		kind := ""
		for _, b := range fn.Blocks {
			for _, in := range b.Instrs {
				switch c := in.(type) {
				case *ssa.Call:
					if isSchedMethod(&c.Call, "Wait") {
						hasWait = true
					}
					if isCffFunc(&c.Call, "NopFlowEmitter") || (c.Call.IsInvoke() && c.Call.Method.Name() == "FlowInit") {
						kind = "flow"
					}
					if isCffFunc(&c.Call, "NopParallelEmitter") || (c.Call.IsInvoke() && c.Call.Method.Name() == "ParallelInit") {
						kind = "parallel"
					}
				}
			}
		}
		if !hasWait {
			continue
		}
		w := &wrapper{fn: fn, kind: kind, name: pkg.Pkg.Path() + "::" + fn.RelString(pkg.Pkg)}
		w.closures = classifyClosures(w)
		ws = append(ws, w)
	}
	sort.Slice(ws, func(i, j int) bool { return ws[i].name < ws[j].name })
	return ws
}

// classifyClosures finds the Run operand of every Enqueue in the wrapper and
// names its role from the variable the task struct lives in.
func classifyClosures(w *wrapper) []*jobClosure {
	var out []*jobClosure
	seen := map[*ssa.Function]bool{}
	for _, b := range w.fn.Blocks {
		for _, in := range b.Instrs {
			call, ok := in.(*ssa.Call)
			if !ok || !isSchedMethod(&call.Call, "Enqueue") {
				continue
			}
			jc := &jobClosure{role: "unrecognised"}
			// Job argument: load of a local cff.Job; find the store to its Run field
			jobArg := call.Call.Args[2]
			var runVal ssa.Value
			hasDeps := false
			_ = hasDeps
			if ld, ok := jobArg.(*ssa.UnOp); ok {
				if al, ok := ld.X.(*ssa.Alloc); ok {
					for _, ref := range *al.Referrers() {
						fa, ok := ref.(*ssa.FieldAddr)
						if !ok {
							continue
						}
						for _, r2 := range *fa.Referrers() {
							if st, ok := r2.(*ssa.Store); ok && st.Addr == fa {
								if fa.Field == 0 {
									runVal = st.Val
								} else {
									hasDeps = true
								}
							}
						}
					}
				}
			}
			switch rv := runVal.(type) {
			case *ssa.MakeClosure:
				jc.fn = rv.Fn.(*ssa.Function)
				jc.role = "end-hook"
				jc.varName = "end"
			case *ssa.UnOp:
				// *(&task.run) where task = *alloc(taskN) or task = new(struct)
				if fa, ok := rv.X.(*ssa.FieldAddr); ok {
					var st *types.Struct
					if pt, ok := fa.X.Type().Underlying().(*types.Pointer); ok {
						st, _ = pt.Elem().Underlying().(*types.Struct)
					}
					switch base := fa.X.(type) {
					case *ssa.UnOp:
						if al, ok := base.X.(*ssa.Alloc); ok {
							jc.varName = al.Comment
							jc.fn = closureStoredInField(al, fa.Field, true)
						}
					case *ssa.Alloc:
						jc.fn = closureStoredInField(base, fa.Field, false)
					}
					if st != nil && jc.fn != nil {
						jc.role = roleOf(st, jc.fn, w.kind)
					}
				}
			}
			if jc.fn == nil {
				jc.role = "unrecognised"
			} else if seen[jc.fn] {
				continue
			} else {
				seen[jc.fn] = true
			}
			out = append(out, jc)
		}
	}
	return out
}

func roleOf(st *types.Struct, fn *ssa.Function, kind string) string {
	has := map[string]bool{}
	for i := 0; i < st.NumFields(); i++ {
		has[st.Field(i).Name()] = true
	}
	fv := map[string]bool{}
	for _, v := range fn.FreeVars {
		fv[v.Name()] = true
	}
	switch {
	case has["run"] && has["job"] && !has["emitter"]:
		return "flow-predicate"
	case has["run"] && has["job"] && has["emitter"]:
		return "flow-task"
	case has["fn"] && fv["key"] && fv["val"]:
		return "map-elem"
	case has["fn"] && fv["val"]:
		return "slice-elem"
	case has["fn"]:
		return "parallel-task"
	}
	return "unrecognised"
}

func closureStoredInField(al *ssa.Alloc, field int, viaLoad bool) *ssa.Function {
	check := func(base ssa.Value) *ssa.Function {
		for _, r2 := range *base.Referrers() {
			fa, ok := r2.(*ssa.FieldAddr)
			if !ok || fa.Field != field {
				continue
			}
			for _, r3 := range *fa.Referrers() {
				if st, ok := r3.(*ssa.Store); ok && st.Addr == fa {
					if mc, ok := st.Val.(*ssa.MakeClosure); ok {
						return mc.Fn.(*ssa.Function)
					}
				}
			}
		}
		return nil
	}
	if !viaLoad {
		return check(al)
	}
	for _, ref := range *al.Referrers() {
		ld, ok := ref.(*ssa.UnOp)
		if !ok {
			continue
		}
		if f := check(ld); f != nil {
			return f
		}
	}
	return nil
}

// structural records an obligation decided by inspection of the generated
// output (no solver involved).
func structural(sink *vc.Sink, fn, kind, label string, props []string, ok bool, text string) {
	c := &vc.Clause{Kind: kind, Label: label, Func: fn, Text: text, Props: props}
	goal := vc.True
	if !ok {
		goal = vc.False
	}
	sink.Instances = append(sink.Instances, &vc.Instance{Name: "G." + fn + "/" + kind + "/" + label, Clause: c, Goal: goal, Trace: []string{text}})
}

// directiveNames returns the code-generation directives of package cff: the
// functions whose body is panic(_noGenMsg).
func directiveNames(repo string) map[string]bool {
	out := map[string]bool{}
	fset := token.NewFileSet()
	af, err := parser.ParseFile(fset, filepath.Join(repo, "cff.go"), nil, 0)
	if err != nil {
		return out
	}
	for _, d := range af.Decls {
		fd, ok := d.(*ast.FuncDecl)
		if !ok || fd.Body == nil || fd.Recv != nil {
			continue
		}
		ast.Inspect(fd.Body, func(n ast.Node) bool {
			if ce, ok := n.(*ast.CallExpr); ok {
				if id, ok := ce.Fun.(*ast.Ident); ok && id.Name == "panic" && len(ce.Args) == 1 {
					if a, ok := ce.Args[0].(*ast.Ident); ok && a.Name == "_noGenMsg" {
						out[fd.Name.Name] = true
					}
				}
			}
			return true
		})
	}
	return out
}

// outputChecks: the generated packages type-check without the cff tag and no
// call to a directive remains in generated files.
func outputChecks(sink *vc.Sink, mode string, lr *vc.LoadResult, bad map[string][]string, directives map[string]bool, modPrefix string) (files int) {
	props := []string{"C13"}
	if mode == "modifier" {
		props = []string{"C13", "C20"}
	}
	var badNames []string
	for p := range bad {
		badNames = append(badNames, p)
	}
	sort.Strings(badNames)
	for _, p := range badNames {
		structural(sink, "output:"+mode, "type-checks", "generated-package-type-checks", props, false, p+": "+strings.Join(bad[p], "; "))
	}
	var visit func(p *packages.Package)
	seen := map[*packages.Package]bool{}
	visit = func(p *packages.Package) {
		if seen[p] || !strings.HasPrefix(p.PkgPath, modPrefix) {
			return
		}
		seen[p] = true
		structural(sink, "output:"+mode, "type-checks", "generated-package-type-checks", props, true, p.PkgPath)
		for i, f := range p.Syntax {
			name := p.CompiledGoFiles[i]
			if !strings.HasSuffix(name, "_gen.go") && !strings.HasSuffix(name, "_gen_test.go") {
				continue
			}
			files++
			left := ""
			ast.Inspect(f, func(n ast.Node) bool {
				ce, ok := n.(*ast.CallExpr)
				if !ok {
					return true
				}
				var id *ast.Ident
				switch fn := ce.Fun.(type) {
				case *ast.SelectorExpr:
					id = fn.Sel
				case *ast.Ident:
					id = fn
				}
				if id == nil {
					return true
				}
				if obj, ok := p.TypesInfo.Uses[id].(*types.Func); ok && obj.Pkg() != nil && obj.Pkg().Path() == "go.uber.org/cff" && directives[obj.Name()] {
					left = fmt.Sprintf("%s: call of cff.%s remains", p.Fset.Position(ce.Pos()), obj.Name())
				}
				return true
			})
			structural(sink, "output:"+mode, "no-directive-left", "no-directive-call-in-output", props, left == "", filepath.Base(name)+" "+left)
		}
		for _, imp := range p.Imports {
			visit(imp)
		}
	}
	for _, p := range lr.Pkgs {
		visit(p)
	}
	return files
}

func passG(repo string, cfg *vc.SolverConfig, only, corpus, scratch string, thorough bool, seed int64) (*vc.PassResult, error) {
	start := time.Now()
	res := &vc.PassResult{Pass: "G", Ungenerated: map[string]string{}, Extra: map[string]any{}}
	if corpus == "" {
		corpus = "/verif/corpus"
	}
	roles, err := contractFile(filepath.Join(repo, "internal", "contracts_templates_verif.go"))
	if err != nil {
		return nil, err
	}
	roleSpecs := map[string]*vc.FuncSpec{}
	for _, fs := range roles.Funcs {
		roleSpecs[strings.TrimPrefix(fs.Name, "role:")] = fs
	}
	directives := directiveNames(repo)
	sink := vc.NewSink("G")
	// implicit safety obligations of generated code (nil dereference, index,
	// comparison of uncomparable interface values, ...): a failure is a run-time
	// panic inside generated plumbing
	for name := range roleSpecs {
		sink.DefaultProps["role:"+name] = []string{"C04", "C13"}
	}
	const modPrefix = "go.uber.org/cff/internal/tests"

	if thorough {
		// seeded random directive programs join the corpus
		rdir := filepath.Join(scratch, "randcorpus")
		if err := writeRandomCorpus(filepath.Join(rdir, fmt.Sprintf("rand%d", seed)), seed, 14, 8); err != nil {
			return nil, err
		}
		corpus = corpus + "," + rdir
		res.Extra["random_corpus"] = fmt.Sprintf("seed %d: 14 flows, 8 parallels", seed)
	}
	g, err := generate(repo, filepath.Join(scratch, "base"), corpus, "base", nil)
	if err != nil {
		if g == nil {
			return nil, err
		}
		structural(sink, "generator:base", "accepts", "corpus-accepted", []string{"C13", "C14"}, false, err.Error())
	} else {
		structural(sink, "generator:base", "accepts", "corpus-accepted", []string{"C13", "C14"}, true, "cff exited 0 on the corpus")
	}
	tests := filepath.Join(g.work, "internal", "tests")
	lr, bad, err := vc.LoadLenient(tests, nil, "./...")
	if err != nil {
		return nil, fmt.Errorf("cannot load the generated corpus: %v", err)
	}
	nfiles := outputChecks(sink, "base", lr, bad, directives, modPrefix)
	ws := findWrappers(lr, modPrefix)
	ctx := vc.NewCtx()
	x := vc.NewExec(ctx, lr.Prog, sink)
	x.RegisterStdModels()
	x.Goexit = false
	gp := &gpass{x: x, lr: lr, roles: roleSpecs, res: res, only: only, roleCount: map[string]int{}, flagSeen: map[string]bool{}, testsDir: tests}
	gp.configure()
	gp.registerWrapperModels()
	nClos := 0
	for _, w := range ws {
		if only != "" && !strings.Contains(w.name, only) {
			continue
		}
		gp.verifyWrapper(w)
		for _, jc := range w.closures {
			nClos++
			gp.roleCount[jc.role]++
			if jc.role == "unrecognised" {
				res.Ungenerated[w.name+" closure"] = "unrecognised job closure"
				structural(sink, "role:unrecognised", "shape", "every-enqueued-closure-has-a-role", []string{"C02", "C04", "C10"}, false, w.name)
				continue
			}
			gp.verifyClosure(w, jc)
		}
	}
	structural(sink, "role:unrecognised", "shape", "every-enqueued-closure-has-a-role", []string{"C02", "C04", "C10"}, true, fmt.Sprintf("%d closures classified", nClos))

	// other generation modes: the output type-checks, no directive remains,
	// source-map output has the same tokens as base output
	type variant struct {
		name string
		mode string
		args []string
	}
	for _, v := range []variant{{"source-map", "source-map", nil}, {"auto-instrument", "base", []string{"-auto-instrument"}}} {
		gv, err := generate(repo, filepath.Join(scratch, v.name), corpus, v.mode, v.args)
		if err != nil {
			if gv == nil {
				return nil, err
			}
			structural(sink, "generator:"+v.name, "accepts", "corpus-accepted", []string{"C13"}, false, err.Error())
		} else {
			structural(sink, "generator:"+v.name, "accepts", "corpus-accepted", []string{"C13"}, true, "cff exited 0 on the corpus")
		}
		vtests := filepath.Join(gv.work, "internal", "tests")
		lrv, badv, err := vc.LoadLenient(vtests, nil, "./...")
		if err != nil {
			return nil, fmt.Errorf("cannot load the generated corpus (%s): %v", v.name, err)
		}
		outputChecks(sink, v.name, lrv, badv, directives, modPrefix)
		if thorough && v.name == "auto-instrument" {
			xv := vc.NewExec(ctx, lrv.Prog, sink)
			xv.RegisterStdModels()
			gv2 := &gpass{x: xv, lr: lrv, roles: roleSpecs, res: res, only: only, roleCount: gp.roleCount, flagSeen: gp.flagSeen, testsDir: vtests}
			gv2.configure()
			gv2.registerWrapperModels()
			for _, w := range findWrappers(lrv, modPrefix) {
				gv2.verifyWrapper(w)
				for _, jc := range w.closures {
					if jc.role != "unrecognised" {
						gv2.verifyClosure(w, jc)
					}
				}
			}
		}
		if v.name == "source-map" {
			compareTokens(sink, tests, vtests)
		}
		os.RemoveAll(gv.work)
	}

	// modifier mode (C20, second half): the flows of the modifier-supported subset
	// are generated with -genmode modifier and every wrapper / task closure is
	// checked against the modflow role contracts, which state the same results
	// and errors as the base-mode roles
	if only == "" || strings.Contains(only, "modifier") || strings.Contains(only, "modflow") {
		modPatterns := []string{"./modifier/..."}
		if _, err := os.Stat(filepath.Join(tests, "zzcorpus", "modflow")); err == nil {
			modPatterns = append(modPatterns, "./zzcorpus/modflow/...")
		}
		gm, err := generate(repo, filepath.Join(scratch, "modifier"), corpus, "modifier", nil, modPatterns...)
		if err != nil {
			if gm == nil {
				return nil, err
			}
			structural(sink, "generator:modifier", "accepts", "corpus-accepted", []string{"C20"}, false, err.Error())
		} else {
			structural(sink, "generator:modifier", "accepts", "corpus-accepted", []string{"C20"}, true, "cff -genmode modifier exited 0 on the modifier corpus")
		}
		mtests := filepath.Join(gm.work, "internal", "tests")
		lrm, badm, err := vc.LoadLenient(mtests, nil, modPatterns...)
		if err != nil {
			return nil, fmt.Errorf("cannot load the generated corpus (modifier): %v", err)
		}
		outputChecks(sink, "modifier", lrm, badm, directives, modPrefix)
		xm := vc.NewExec(ctx, lrm.Prog, sink)
		xm.RegisterStdModels()
		gm2 := &gpass{x: xm, lr: lrm, roles: roleSpecs, res: res, only: only, roleCount: gp.roleCount, flagSeen: gp.flagSeen, testsDir: mtests, modifier: true}
		gm2.configure()
		gm2.registerWrapperModels()
		nmod := 0
		for _, w := range findWrappers(lrm, modPrefix) {
			if w.kind != "flow" {
				continue
			}
			w.kind = "modflow"
			nmod++
			gm2.verifyWrapper(w)
			for _, jc := range w.closures {
				if jc.role == "flow-task" {
					jc.role = "modflow-task"
				}
				gp.roleCount[jc.role]++
				if _, ok := roleSpecs[jc.role]; !ok || jc.role == "unrecognised" {
					structural(sink, "role:unrecognised", "shape", "every-enqueued-closure-of-a-modifier-flow-has-a-role", []string{"C20"}, false, w.name+": "+jc.role)
					continue
				}
				gm2.verifyClosure(w, jc)
			}
		}
		// the argument helpers the call sites were rewritten to
		nargs := 0
		var helperNames []string
		for name, fn := range lrm.Funcs {
			if strings.HasPrefix(name, modPrefix) && gm2.isModArgHelper(fn) {
				helperNames = append(helperNames, name)
			}
		}
		sort.Strings(helperNames)
		for _, name := range helperNames {
			nargs++
			gm2.verifyModArg(lrm.Funcs[name], name)
		}
		res.Extra["modifier_arg_helpers"] = nargs
		// call sites: the k-th argument of a rewritten directive call is the helper
		// generated for the option at source position L:C, and the k-th parameter of
		// the implementation function is the one named after the same position -
		// otherwise two options of one type (Concurrency and a single int Params)
		// are silently exchanged
		nsites := modifierCallSites(sink, lrm, modPrefix)
		res.Extra["modifier_call_sites"] = nsites
		structural(sink, "role:unrecognised", "shape", "every-enqueued-closure-of-a-modifier-flow-has-a-role", []string{"C20"}, nmod > 0, fmt.Sprintf("%d modifier-mode flows", nmod))
		res.Extra["modifier_flows"] = nmod
		os.RemoveAll(gm.work)
	}

	res.Extra["programs"] = len(lr.Pkgs)
	res.Extra["generated_files"] = nfiles
	res.Extra["wrappers"] = len(ws)
	res.Extra["closures"] = nClos
	res.Extra["role_matrix_seen"] = gp.roleCount
	var flags []string
	for f := range gp.flagSeen {
		flags = append(flags, f)
	}
	sort.Strings(flags)
	res.Extra["flag_combinations_seen"] = flags
	for name := range roleSpecs {
		res.Functions = append(res.Functions, "role:"+name)
	}
	sort.Strings(res.Functions)
	vc.Finish(x, cfg, res, start)
	return res, nil
}

// compareTokens: for every generated file, the Go token sequence of the
// source-map output equals that of the base output (comments and line
// directives are not tokens).
func compareTokens(sink *vc.Sink, baseDir, smDir string) {
	filepath.Walk(baseDir, func(p string, info os.FileInfo, err error) error {
		if err != nil || info.IsDir() || !(strings.HasSuffix(p, "_gen.go") || strings.HasSuffix(p, "_gen_test.go")) {
			return nil
		}
		rel, _ := filepath.Rel(baseDir, p)
		a, errA := tokensOf(p)
		b, errB := tokensOf(filepath.Join(smDir, rel))
		ok := errA == nil && errB == nil && len(a) == len(b)
		why := rel
		if ok {
			for i := range a {
				if a[i] != b[i] {
					ok = false
					why = fmt.Sprintf("%s: token %d differs: %q vs %q", rel, i, a[i], b[i])
					break
				}
			}
		} else {
			why = fmt.Sprintf("%s: %d vs %d tokens (%v %v)", rel, len(a), len(b), errA, errB)
		}
		structural(sink, "output:source-map", "same-tokens", "source-map-output-has-the-tokens-of-base-output", []string{"C20"}, ok, why)
		return nil
	})
}

func tokensOf(path string) ([]string, error) {
	src, err := os.ReadFile(path)
	if err != nil {
		return nil, err
	}
	fset := token.NewFileSet()
	f := fset.AddFile(path, -1, len(src))
	var sc scanner.Scanner
	sc.Init(f, src, nil, 0)
	var out []string
	for {
		_, tok, lit := sc.Scan()
		if tok == token.EOF {
			break
		}
		if tok == token.SEMICOLON && lit == "\n" {
			out = append(out, ";")
			continue
		}
		if lit != "" {
			out = append(out, lit)
		} else {
			out = append(out, tok.String())
		}
	}
	return out, nil
}

var _ = types.Typ


var posSuffix = regexp.MustCompile(`_(\d+)_(\d+)$`)

func modifierCallSites(sink *vc.Sink, lr *vc.LoadResult, modPrefix string) int {
	n := 0
	for _, p := range lr.Pkgs {
		if !strings.HasPrefix(p.PkgPath, modPrefix) {
			continue
		}
		for _, f := range p.Syntax {
			ast.Inspect(f, func(nd ast.Node) bool {
				ce, ok := nd.(*ast.CallExpr)
				if !ok {
					return true
				}
				id, ok := ce.Fun.(*ast.Ident)
				if !ok || !strings.HasPrefix(id.Name, "_cffFlow") {
					return true
				}
				fobj, ok := p.TypesInfo.Uses[id].(*types.Func)
				if !ok {
					return true
				}
				sig := fobj.Type().(*types.Signature)
				n++
				good, why := true, p.Fset.Position(ce.Pos()).String()
				if sig.Params().Len() != len(ce.Args) {
					good, why = false, why+": arity differs"
				}
				for i := 1; good && i < len(ce.Args); i++ {
					ac, ok := ce.Args[i].(*ast.CallExpr)
					if !ok {
						continue
					}
					aid, ok := ac.Fun.(*ast.Ident)
					if !ok {
						continue
					}
					am := posSuffix.FindStringSubmatch(aid.Name)
					pn := sig.Params().At(i).Name()
					if am == nil || !strings.HasPrefix(pn, "m") {
						continue
					}
					// helper: _cff<Option><file>_<L>_<C>; parameter: m<file><L>_<C>
					lc := am[1] + "_" + am[2]
					base := strings.TrimSuffix(aid.Name, "_"+lc)
					file := strings.TrimSuffix(strings.TrimPrefix(pn, "m"), lc)
					if !strings.HasSuffix(pn, lc) || file == strings.TrimPrefix(pn, "m") || !strings.HasSuffix(base, file) {
						good = false
						why += fmt.Sprintf(": argument %d is %s but parameter %d is %s", i, aid.Name, i, sig.Params().At(i).Name())
					}
				}
				structural(sink, "role:modflow-call", "shape", "call-site-arguments-line-up-with-the-implementations-parameters", []string{"C20"}, good, why)
				return true
			})
		}
	}
	return n
}
