// cffvc: contract-based verification-condition generator for uber-go/cff.
package main

import (
	"flag"
	"fmt"
	"go/types"
	"os"
	"path/filepath"
	"sort"
	"strings"
	"time"

	"cffvc/vc"

	"golang.org/x/tools/go/ssa"
)

func main() {
	if len(os.Args) < 2 {
		fmt.Fprintln(os.Stderr, "usage: cffvc <passS|passK|passG|dump> [flags]")
		os.Exit(2)
	}
	cmd := os.Args[1]
	fs := flag.NewFlagSet(cmd, flag.ExitOnError)
	repo := fs.String("repo", "/repo", "repository root")
	out := fs.String("out", "", "output JSON file")
	timeout := fs.Int("timeout", 10, "solver timeout (s)")
	scratch := fs.String("scratch", "", "scratch dir for queries")
	keep := fs.Bool("keep", false, "keep query files")
	only := fs.String("only", "", "only verify functions whose name contains this")
	verbose := fs.Bool("v", false, "verbose")
	corpus := fs.String("corpus", "", "passG: corpus directory list (comma separated)")
	writeBindings := fs.Bool("write-bindings", false, "record the locals of the functions under contract in /verif/bindings.json")
	bindingsFile = "/verif/bindings.json"
	thorough := fs.Bool("thorough", false, "thorough tier: role verification of every generation variant, random flow corpus")
	seed := fs.Int64("seed", 0, "seed for the random part of the thorough corpus")
	fs.Parse(os.Args[2:])
	recordBindings = *writeBindings
	if *scratch == "" {
		d, err := os.MkdirTemp(scratchBase(), "cffvc.")
		if err != nil {
			fatal(err)
		}
		*scratch = d
		if !*keep {
			defer os.RemoveAll(d)
		}
	}
	cfg := &vc.SolverConfig{TimeoutSec: *timeout, Backends: []string{"z3-new", "cvc5", "z3"}, Dir: *scratch, Keep: *keep}
	var res *vc.PassResult
	var err error
	switch cmd {
	case "passS":
		res, err = passS(*repo, cfg, *only)
	case "passK":
		res, err = passK(*repo, cfg, *only)
	case "passG":
		res, err = passG(*repo, cfg, *only, *corpus, *scratch, *thorough, *seed)
	case "sites":
		lr, err := vc.Load(*repo, []string{"verif"}, "go.uber.org/cff/...")
		if err != nil {
			fatal(err)
		}
		x := vc.NewExec(vc.NewCtx(), lr.Prog, vc.NewSink("X"))
		for name, fn := range lr.Funcs {
			if strings.HasSuffix(name, "::"+*only) {
				fmt.Println(name)
				for _, k := range x.SiteKeys(fn) {
					fmt.Println("  ", k)
				}
			}
		}
		return
	default:
		fatal(fmt.Errorf("unknown command %s", cmd))
	}
	if err != nil {
		if !*keep {
			os.RemoveAll(*scratch)
		}
		fatal(err)
	}
	if *out != "" {
		if err := vc.WriteJSON(*out, res); err != nil {
			fatal(err)
		}
	}
	summarize(res, *verbose)
}

var (
	bindingsFile   string
	recordBindings bool
)

func scratchBase() string {
	if d := os.Getenv("VERIF_SCRATCH"); d != "" {
		return d
	}
	return "/var/tmp"
}

func fatal(err error) {
	fmt.Fprintln(os.Stderr, "cffvc:", err)
	os.Exit(2)
}

func summarize(res *vc.PassResult, verbose bool) {
	counts := map[string]int{}
	for _, o := range res.Obligations {
		counts[o.Status]++
		if verbose || o.Status != "discharged" {
			fmt.Println(o.String())
			if o.Status != "discharged" {
				if o.FailPos != "" {
					fmt.Println("    at", o.FailPos)
				}
				if o.Text != "" {
					fmt.Println("    clause:", o.Text)
				}
				if o.Detail != "" {
					fmt.Println("    detail:", o.Detail)
				}
				if verbose {
					fmt.Println("    trace:", strings.Join(o.FailTrace, " "))
					for _, e := range o.FailEvents {
						fmt.Println("      ev:", e)
					}
				}
			}
		}
	}
	var ks []string
	for k := range res.Ungenerated {
		ks = append(ks, k)
	}
	sort.Strings(ks)
	for _, k := range ks {
		fmt.Printf("UNGENERATED %s: %s\n", k, res.Ungenerated[k])
	}
	for _, s := range res.Stale {
		fmt.Println("STALE-CONTRACT", s)
	}
	fmt.Printf("pass %s: %d functions, %d obligations %v, %d paths, %.1fs\n", res.Pass, len(res.Functions), len(res.Obligations), counts, res.Paths, res.WallSeconds)
}

func contractFile(path string) (*vc.ContractFile, error) {
	if _, err := os.Stat(path); err != nil {
		return nil, fmt.Errorf("contract file missing: %s", path)
	}
	return vc.ParseContractFile(path)
}

func filterBound(bound map[*ssa.Function]*vc.FuncSpec, only string) {
	if only == "" {
		return
	}
	for fn, sp := range bound {
		if !strings.Contains(sp.Name, only) && !sp.Trusted {
			sp.Options["skip"] = "true"
			delete(bound, fn)
		}
	}
}

// ---------------------------------------------------------------------

func passS(repo string, cfg *vc.SolverConfig, only string) (*vc.PassResult, error) {
	start := time.Now()
	lr, err := vc.Load(repo, []string{"verif"}, "go.uber.org/cff/scheduler", "go.uber.org/cff")
	if err != nil {
		return nil, err
	}
	ctx := vc.NewCtx()
	sink := vc.NewSink("S")
	x := vc.NewExec(ctx, lr.Prog, sink)
	x.RegisterStdModels()
	x.Goexit = true
	res := &vc.PassResult{Pass: "S", Ungenerated: map[string]string{}}
	all := map[*ssa.Function]*vc.FuncSpec{}
	var frames []vc.FrameDecl
	for _, pc := range []struct{ pkg, file string }{
		{"go.uber.org/cff/scheduler", filepath.Join(repo, "scheduler", "contracts_verif.go")},
		{"go.uber.org/cff", filepath.Join(repo, "contracts_verif.go")},
	} {
		cf, err := contractFile(pc.file)
		if err != nil {
			if pc.pkg == "go.uber.org/cff" {
				continue
			}
			return nil, err
		}
		frames = append(frames, cf.Frames...)
		for fn, sp := range vc.BindSpecs(x, lr, pc.pkg, cf, res) {
			all[fn] = sp
		}
	}
	filterBound(all, only)
	vc.ApplyBindings(x, lr, all, bindingsFile, recordBindings)
	configureS(x)
	vc.VerifyAll(x, all, res)
	if only == "" || only == "structural" {
		sStructural(x, lr, frames, res)
	}
	vc.Finish(x, cfg, res, start)
	return res, nil
}

// configureS sets the call policy of the scheduler pass: calls through
// function values of unknown origin (the user's job) may panic or Goexit;
// interface methods (context, emitter) are assumed not to panic.
func configureS(x *vc.Exec) {
	x.Classify = func(s *vc.State, c *vc.CallCtx, callee vc.Value) vc.CallMode {
		if c.Common.IsInvoke() {
			return vc.ModeOpaque
		}
		if _, known := callee.(*vc.FuncVal); !known {
			return vc.ModeOpaquePanics
		}
		return vc.ModeAuto
	}
}

func passK(repo string, cfg *vc.SolverConfig, only string) (*vc.PassResult, error) {
	start := time.Now()
	lr, err := vc.Load(repo, []string{"verif"}, "go.uber.org/cff/internal", "go.uber.org/cff/cmd/cff")
	if err != nil {
		return nil, err
	}
	ctx := vc.NewCtx()
	sink := vc.NewSink("K")
	res := &vc.PassResult{Pass: "K", Ungenerated: map[string]string{}, Extra: map[string]any{}}
	var lastX *vc.Exec
	var frames []vc.FrameDecl
	totalPaths := 0
	for _, pc := range []struct {
		pkg, file string
		strs      bool
	}{
		{"go.uber.org/cff/internal", filepath.Join(repo, "internal", "contracts_verif.go"), false},
		{"go.uber.org/cff/cmd/cff", filepath.Join(repo, "cmd", "cff", "contracts_verif.go"), true},
	} {
		cf, err := contractFile(pc.file)
		if err != nil {
			if pc.pkg != "go.uber.org/cff/internal" {
				continue
			}
			return nil, err
		}
		frames = append(frames, cf.Frames...)
		vc.StringTheory = pc.strs
		x := vc.NewExec(ctx, lr.Prog, sink)
		x.RegisterStdModels()
		x.RegisterMapSpecFuncs()
		x.RegisterTypeMapModels()
		configureK(x)
		all := vc.BindSpecs(x, lr, pc.pkg, cf, res)
		filterBound(all, only)
		vc.ApplyBindings(x, lr, all, bindingsFile, recordBindings)
		vc.VerifyAll(x, all, res)
		totalPaths += x.Paths()
		lastX = x
	}
	vc.StringTheory = false
	kStructural(lastX, lr, repo, res, frames)
	vc.Finish(lastX, cfg, res, start)
	res.Paths = totalPaths
	return res, nil
}

// configureK: compiler functions: every call without a contract or an
// explicit "inline" marker is opaque and assumed not to panic (its own
// no-panic obligations are generated where it is under contract).
func configureK(x *vc.Exec) {
	x.NilInterfaceSafety = true
	x.FrameScope = func(fn *ssa.Function) bool {
		p := fn.Pkg
		for q := fn; p == nil && q != nil; q = q.Parent() {
			p = q.Pkg
		}
		return p != nil && strings.HasPrefix(p.Pkg.Path(), "go.uber.org/cff")
	}
	x.Classify = func(s *vc.State, c *vc.CallCtx, callee vc.Value) vc.CallMode {
		if fv, ok := callee.(*vc.FuncVal); ok && !c.Common.IsInvoke() {
			if sp, ok := x.Specs[fv.Fn]; ok && sp.Inline {
				return vc.ModeInline
			}
			if fv.Fn.Parent() != nil {
				return vc.ModeInline // function literals of the function under contract
			}
		}
		return vc.ModeOpaque
	}
	x.PureFunc = func(name string) bool {
		for _, p := range []string{"go/types.", "go/ast.", "go/token.", "go/constant.", "invoke go/types.", "invoke go/ast.", "invoke go/constant."} {
			if strings.Contains(name, p) {
				return true
			}
		}
		if name == "path/filepath.Base" {
			return true
		}
		// position accessors of AST-like nodes
		if strings.HasPrefix(name, "invoke ") && (strings.HasSuffix(name, ".Pos") || strings.HasSuffix(name, ".End")) {
			return true
		}
		return false
	}
	libType := func(t types.Type) bool {
		ts := t.String()
		return strings.Contains(ts, "go/types.") || strings.Contains(ts, "go/ast.") || strings.Contains(ts, "go/constant.")
	}
	x.NoTypedNil = libType
	x.MapValuesNonNil = libType
	x.NonNilResult = func(name string) bool {
		for _, n := range []string{"(*go/types.Tuple).At", "(*go/types.Named).Obj", "(*go/types.Var).Type", "(*go/types.Pointer).Elem",
			"(*go/types.Slice).Elem", "(*go/types.Map).Key", "(*go/types.Map).Elem", "invoke go/types.Type.Underlying", "(*go/types.Func).Type", "fmt.Errorf", "errors.New", "(*go/token.FileSet).File", "go/types.NewStruct", "go/types.NewVar"} {
			if name == n {
				return true
			}
		}
		return false
	}
	x.NilReceiverPanics = func(fn *ssa.Function) bool {
		// go/types and go/ast accessor methods read fields of their receiver
		if fn.Pkg == nil {
			return false
		}
		switch fn.Pkg.Pkg.Path() {
		case "go/types", "go/ast", "go/token":
			_, isPtr := fn.Signature.Recv().Type().(*types.Pointer)
			if strings.Contains(fn.String(), "types.Tuple") {
				return false // Len and At are nil-safe (At is covered by its index precondition)
			}
			return isPtr && fn.Name() != "String"
		}
		return false
	}
}

