package main

import (
	"fmt"
	"go/token"
	"go/types"
	"path/filepath"
	"sort"
	"strings"

	"cffvc/vc"

	"golang.org/x/tools/go/ssa"
)

// Ownership discipline of package scheduler (C12), discharged structurally:
// for every field of ScheduledJob and Scheduler the contract file declares who
// may store and who may load it; every store / load site in the package is
// checked against the declaration. A field without a declaration, or an
// access outside its declared owners, is a failed obligation.
//
//   frame own scheduler.ScheduledJob.remaining #0 loop-only: ...
//
// kinds:
//   set-at-allocation    stored only in the composite literal of Enqueue / New, loaded anywhere
//   loop-only            stored and loaded only by the Scheduler Loop (run and its literals)
//   loop-writes-worker-reads   stored only by the loop; loaded by the loop and by worker
//   published-by-close   stored only by the loop; loaded by the loop, and by Wait after <-finishedc

func funcRoot(fn *ssa.Function) *ssa.Function {
	for fn.Parent() != nil {
		fn = fn.Parent()
	}
	return fn
}

func sStructural(x *vc.Exec, lr *vc.LoadResult, frames []vc.FrameDecl, res *vc.PassResult) {
	sink := x.Sink
	fset := lr.Prog.Fset
	pos := func(in ssa.Instruction) string {
		p := fset.Position(in.Pos())
		return fmt.Sprintf("%s:%d", filepath.Base(p.Filename), p.Line)
	}
	own := map[string]vc.FrameDecl{}
	for _, fd := range frames {
		if fd.Kind == "own" {
			own[fd.Func] = fd
		}
	}
	type access struct {
		fn    *ssa.Function
		in    ssa.Instruction
		store bool
	}
	acc := map[string][]access{}
	var fns []*ssa.Function
	for name, fn := range lr.Funcs {
		if strings.HasPrefix(name, "go.uber.org/cff/scheduler::") && len(fn.Blocks) > 0 {
			fns = append(fns, fn)
		}
	}
	sort.Slice(fns, func(i, j int) bool { return fns[i].String() < fns[j].String() })
	nGo := 0
	for _, fn := range fns {
		for _, b := range fn.Blocks {
			for _, in := range b.Instrs {
				if g, ok := in.(*ssa.Go); ok {
					nGo++
					callee := "?"
					switch v := g.Call.Value.(type) {
					case *ssa.Function:
						callee = v.Name()
					case *ssa.MakeClosure:
						callee = v.Fn.Name()
					}
					okGo := (funcRoot(fn).Name() == "New" && (callee == "New$1" || callee == "run")) || (funcRoot(fn).Name() == "New" && callee == "worker") || (funcRoot(fn).Name() == "worker" && callee == "worker")
					sink.Structural("scheduler."+fn.Name(), "frame", "go-statement-is-one-of-the-declared-three", []string{"C03", "C06"}, okGo, "go "+callee+" at "+pos(in))
				}
				fa, ok := in.(*ssa.FieldAddr)
				if !ok {
					continue
				}
				pt, ok := fa.X.Type().Underlying().(*types.Pointer)
				if !ok {
					continue
				}
				nt, ok := pt.Elem().(*types.Named)
				if !ok || (nt.Obj().Name() != "ScheduledJob" && nt.Obj().Name() != "Scheduler") || nt.Obj().Pkg().Path() != "go.uber.org/cff/scheduler" {
					continue
				}
				key := "scheduler." + nt.Obj().Name() + "." + ssaStructField(fa)
				for _, r := range *fa.Referrers() {
					switch r := r.(type) {
					case *ssa.Store:
						if r.Addr == fa {
							acc[key] = append(acc[key], access{fn, r, true})
						}
					case *ssa.UnOp:
						if r.Op == token.MUL {
							acc[key] = append(acc[key], access{fn, r, false})
						}
					}
				}
			}
		}
	}
	// Where the scheduler may block (C05, C06, C09): every blocking channel
	// operation of the package - send, receive (also the receive of a range over
	// a channel), blocking select - is declared in the contract file, per root
	// function and in source order. An operation that is not declared is a place
	// where the Scheduler Loop, Wait, Enqueue or a worker can be held up that the
	// termination / promptness arguments do not account for.
	blocking := map[string]vc.FrameDecl{}
	for _, fd := range frames {
		if fd.Kind == "blocking" {
			blocking[fmt.Sprintf("%s #%d", fd.Func, fd.Ordinal)] = fd
		}
	}
	usedBlocking := map[string]bool{}
	type bop struct {
		in   ssa.Instruction
		desc string
	}
	byRoot := map[string][]bop{}
	chanName := func(v ssa.Value) string {
		for {
			switch t := v.(type) {
			case *ssa.UnOp:
				if t.Op == token.MUL {
					v = t.X
					continue
				}
			case *ssa.FieldAddr:
				return ssaStructField(t)
			case *ssa.Parameter:
				return t.Name()
			case *ssa.FreeVar:
				return t.Name()
			case *ssa.Alloc:
				return t.Comment
			case *ssa.ChangeType:
				v = t.X
				continue
			case *ssa.Phi:
				return t.Comment
			}
			return "?"
		}
	}
	for _, fn := range fns {
		root := funcRoot(fn).Name()
		if strings.HasSuffix(fset.Position(fn.Pos()).Filename, "_test.go") {
			continue
		}
		for _, b := range fn.Blocks {
			for _, in := range b.Instrs {
				switch in := in.(type) {
				case *ssa.Send:
					byRoot[root] = append(byRoot[root], bop{in, "send-" + chanName(in.Chan)})
				case *ssa.UnOp:
					if in.Op == token.ARROW {
						byRoot[root] = append(byRoot[root], bop{in, "recv-" + chanName(in.X)})
					}
				case *ssa.Select:
					if in.Blocking {
						byRoot[root] = append(byRoot[root], bop{in, "select"})
					}
				}
			}
		}
	}
	var roots []string
	for r := range byRoot {
		roots = append(roots, r)
	}
	sort.Strings(roots)
	nBlocking := 0
	for _, r := range roots {
		ops := byRoot[r]
		sort.SliceStable(ops, func(i, j int) bool { return ops[i].in.Pos() < ops[j].in.Pos() })
		for i, op := range ops {
			nBlocking++
			key := fmt.Sprintf("scheduler.%s #%d", r, i+1)
			fd, ok := blocking[key]
			usedBlocking[key] = true
			good := ok && fd.Why == op.desc
			why := fmt.Sprintf("%s at %s", op.desc, pos(op.in))
			if !ok {
				why = "undeclared blocking operation: " + why
			} else if !good {
				why = fmt.Sprintf("declared %s, found %s", fd.Why, why)
			}
			sink.Structural("scheduler."+r, "frame", fmt.Sprintf("blocking-operation-%d-is-the-declared-one", i+1), []string{"C05", "C06", "C09"}, good, why)
		}
	}
	for key := range blocking {
		if !usedBlocking[key] {
			res.Stale = append(res.Stale, "frame blocking "+key)
		}
	}
	sink.Structural("scheduler", "frame", "blocking-operations-counted", []string{"C05", "C06", "C09"}, true, fmt.Sprintf("%d blocking channel operations in package scheduler", nBlocking))
	// C03 / C06: besides its four go statements the package starts no goroutine
	// indirectly: no call to a library function that may start one on the
	// caller's behalf (context.WithCancel & co. start a goroutine per derived
	// context when the parent is not a standard context; time.AfterFunc,
	// signal.Notify, ...).
	spawners := map[string]bool{
		"context.WithCancel": true, "context.WithCancelCause": true, "context.WithDeadline": true, "context.WithDeadlineCause": true,
		"context.WithTimeout": true, "context.WithTimeoutCause": true, "context.AfterFunc": true, "time.AfterFunc": true,
		"os/signal.Notify": true, "os/signal.NotifyContext": true,
	}
	nSpawnCalls := 0
	for name, fn := range lr.Funcs {
		if !(strings.HasPrefix(name, "go.uber.org/cff/scheduler::") || strings.HasPrefix(name, "go.uber.org/cff::")) || len(fn.Blocks) == 0 {
			continue
		}
		if strings.HasSuffix(fset.Position(fn.Pos()).Filename, "_test.go") {
			continue
		}
		for _, b := range fn.Blocks {
			for _, in := range b.Instrs {
				c, ok := in.(ssa.CallInstruction)
				if !ok {
					continue
				}
				if f, ok := c.Common().Value.(*ssa.Function); ok && spawners[f.String()] {
					nSpawnCalls++
					sink.Structural(fn.Name(), "frame", "no-library-call-that-may-start-a-goroutine", []string{"C03", "C06"}, false, f.String()+" at "+pos(in)+" may start a goroutine per call (one per job or per directive): goroutines are no longer bounded by the concurrency limit")
				}
			}
		}
	}
	sink.Structural("scheduler", "frame", "no-library-call-that-may-start-a-goroutine", []string{"C03", "C06"}, true, fmt.Sprintf("%d calls of goroutine-starting library functions in packages scheduler and cff", nSpawnCalls))
	sink.Structural("scheduler", "frame", "go-statements-counted", []string{"C03", "C06"}, nGo == 4, fmt.Sprintf("%d go statements in package scheduler (spawner, loop, worker in the spawner, successor in worker$1)", nGo))
	// Integers (C01, C03, C05, C19): the obligations of this pass treat Go
	// integers as mathematical integers. That is the real semantics as long as
	// every counter is a signed 64-bit machine word that would need 2^63 jobs to
	// wrap; it is not for a narrower or an unsigned type (a dependency counter
	// of type uint16 wraps to zero at 65536 dependencies and releases the job
	// early; an unsigned counter makes 0-1 a huge number). So every integer
	// field of the scheduler's structs and every integer value the scheduler's
	// functions compute has to be of a signed 64-bit type.
	mathInt := func(t types.Type) (bool, bool) {
		b, ok := t.Underlying().(*types.Basic)
		if !ok || b.Info()&types.IsInteger == 0 {
			return false, true
		}
		switch b.Kind() {
		case types.Int, types.Int64, types.UntypedInt, types.UntypedRune:
			return true, true
		}
		return true, false
	}
	if sp := lr.Prog.ImportedPackage("go.uber.org/cff/scheduler"); sp != nil {
		scope := sp.Pkg.Scope()
		names := scope.Names()
		for _, n := range names {
			tn, ok := scope.Lookup(n).(*types.TypeName)
			if !ok {
				continue
			}
			st, ok := tn.Type().Underlying().(*types.Struct)
			if !ok || n == "State" {
				// State is the snapshot handed to the emitter: output only,
				// nothing the scheduler computes with.
				continue
			}
			for i := 0; i < st.NumFields(); i++ {
				f := st.Field(i)
				if isInt, good := mathInt(f.Type()); isInt {
					sink.Structural("scheduler."+n+"."+f.Name(), "frame", "integer-field-is-a-signed-64-bit-word", []string{"C01", "C03", "C05", "C19"}, good, fmt.Sprintf("field %s.%s has type %s", n, f.Name(), f.Type()))
				}
			}
		}
	}
	for _, fn := range fns {
		var bad []string
		nInt := 0
		note := func(v ssa.Value, in ssa.Instruction) {
			if v == nil || v.Type() == nil {
				return
			}
			if isInt, good := mathInt(v.Type()); isInt {
				nInt++
				if !good {
					bad = append(bad, fmt.Sprintf("%s of type %s at %s", v.Name(), v.Type(), pos(in)))
				}
			}
		}
		for _, b := range fn.Blocks {
			for _, in := range b.Instrs {
				if v, ok := in.(ssa.Value); ok {
					note(v, in)
				}
			}
		}
		if nInt > 0 {
			sink.Structural("scheduler."+fn.Name(), "frame", "integer-values-are-signed-64-bit-words", []string{"C01", "C03", "C05", "C19"}, len(bad) == 0, fmt.Sprintf("%d integer values; not int/int64: %s", nInt, strings.Join(bad, "; ")))
		}
	}
	var keys []string
	for k := range acc {
		keys = append(keys, k)
	}
	sort.Strings(keys)
	for _, k := range keys {
		fd, ok := own[k]
		if !ok {
			sink.Structural(k, "frame", "field-has-an-ownership-declaration", []string{"C12"}, false, "no ownership declaration for "+k)
			continue
		}
		for _, a := range acc[k] {
			root := funcRoot(a.fn).Name()
			good := false
			switch fd.Why {
			case "set-at-allocation":
				good = !a.store || root == "Enqueue" || root == "New"
			case "loop-only":
				good = root == "run"
			case "loop-writes-worker-reads":
				good = root == "run" || (!a.store && root == "worker")
			case "published-by-close":
				good = root == "run" || (!a.store && root == "Wait" && afterFinishedArm(a.fn, a.in))
			}
			kind := "load"
			if a.store {
				kind = "store"
			}
			sink.Structural(k, "frame", "accessed-only-by-its-declared-owners", []string{"C12"}, good, fmt.Sprintf("%s: %s in %s at %s", fd.Why, kind, a.fn.Name(), pos(a.in)))
		}
	}
	for k := range own {
		if _, ok := acc[k]; !ok {
			res.Stale = append(res.Stale, "frame own "+k)
		}
	}
}

// afterFinishedArm: the load in Wait is in a block reached only through the
// select arm that received from finishedc (the block is dominated by the
// comparison of the select index with that arm's ordinal).
func afterFinishedArm(fn *ssa.Function, in ssa.Instruction) bool {
	var sel *ssa.Select
	for _, b := range fn.Blocks {
		for _, i := range b.Instrs {
			if s, ok := i.(*ssa.Select); ok {
				sel = s
			}
		}
	}
	if sel == nil {
		return false
	}
	arm := -1
	for i, st := range sel.States {
		if ld, ok := st.Chan.(*ssa.UnOp); ok {
			if fa, ok := ld.X.(*ssa.FieldAddr); ok && ssaStructField(fa) == "finishedc" {
				arm = i
			}
		}
	}
	if arm < 0 {
		return false
	}
	// the block of the load must not be the select's block nor the ctx arm's block; with two arms
	// the finished arm's body is the else-successor of "index == 0" when arm == 1
	blk := in.Block()
	if blk == sel.Block() {
		return false
	}
	for _, i := range sel.Block().Instrs {
		if iff, ok := i.(*ssa.If); ok {
			bo, ok := iff.Cond.(*ssa.BinOp)
			if !ok {
				continue
			}
			c, ok := bo.Y.(*ssa.Const)
			if !ok {
				continue
			}
			n, _ := constInt(c)
			then, els := sel.Block().Succs[0], sel.Block().Succs[1]
			if int(n) == arm {
				return then.Dominates(blk)
			}
			if len(sel.States) == 2 {
				return els.Dominates(blk)
			}
		}
	}
	return false
}

func constInt(c *ssa.Const) (int64, bool) {
	if c.Value == nil {
		return 0, false
	}
	return c.Int64(), true
}
