package main

import (
	"fmt"
	"go/token"
	"go/types"
	"strings"

	"cffvc/vc"
	"golang.org/x/tools/go/ssa"
)

// checkPathFrame (C17): the generated text is a function of the input file and
// its package, so the places the generator learns about the *location* of
// things - the full name of the source file ((*token.File).Name,
// token.Position.Filename, file.Filepath) and the output path - may reach the
// output only through filepath.Base / modifier.TrimFilename (the file's own
// name, no directory), or go to the file system / the parser / a diagnostic.
// A path that reaches anything else (filepath.Dir, filepath.Rel, a formatted
// write, a helper that has no such contract) makes the output depend on where
// the checkout lives or on which output path was asked for.
func checkPathFrame(sink *vc.Sink, fns []*ssa.Function, pos func(ssa.Instruction) string) {
	okCallee := map[string]bool{
		"path/filepath.Base":     true,
		"os.WriteFile":           true,
		"os.ReadFile":            true,
		"go/parser.ParseFile":    true,
		"fmt.Errorf":             true,
		"go.uber.org/cff/internal/modifier.TrimFilename": true,
		"(*go.uber.org/cff/internal.compiler).errf":      true,
	}
	pathFields := map[string]bool{"generator.outputPath": true, "generatorv2.outputPath": true, "file.Filepath": true, "Position.Filename": true, "GenParams.OutputPath": true, "GenerateOpts.OutputPath": true}
	okStoreField := map[string]bool{"outputPath": true, "Filepath": true, "OutputPath": true, "Filename": true}
	fieldKey := func(x types.Type, idx int) string {
		if p, ok := x.Underlying().(*types.Pointer); ok {
			x = p.Elem()
		}
		nt, ok := x.(*types.Named)
		if !ok {
			return ""
		}
		st, ok := nt.Underlying().(*types.Struct)
		if !ok {
			return ""
		}
		return nt.Obj().Name() + "." + st.Field(idx).Name()
	}
	var follow func(v ssa.Value, seen map[ssa.Value]bool) string
	follow = func(v ssa.Value, seen map[ssa.Value]bool) string {
		if seen[v] || v.Referrers() == nil {
			return ""
		}
		seen[v] = true
		for _, r := range *v.Referrers() {
			switch r := r.(type) {
			case *ssa.DebugRef:
			case *ssa.MakeInterface:
				if bad := follow(r, seen); bad != "" {
					return bad
				}
			case *ssa.Phi:
				if bad := follow(r, seen); bad != "" {
					return bad
				}
			case *ssa.ChangeType:
				if bad := follow(r, seen); bad != "" {
					return bad
				}
			case *ssa.Store:
				if r.Val != v {
					continue
				}
				switch a := r.Addr.(type) {
				case *ssa.IndexAddr:
					// element of a variadic argument array: follow the array to the call
					if al, ok := a.X.(*ssa.Alloc); ok {
						if bad := follow(al, seen); bad != "" {
							return bad
						}
						continue
					}
					return "stored into a slice at " + pos(r)
				case *ssa.FieldAddr:
					if okStoreField[ssaStructField(a)] {
						continue
					}
					return "stored into field " + ssaStructField(a) + " at " + pos(r)
				case *ssa.Alloc:
					// a local variable: follow its loads
					if a.Referrers() != nil {
						for _, u := range *a.Referrers() {
							if ld, ok := u.(*ssa.UnOp); ok && ld.Op == token.MUL {
								if bad := follow(ld, seen); bad != "" {
									return bad
								}
							}
						}
					}
				default:
					return "stored at " + pos(r)
				}
			case *ssa.IndexAddr:
				// address of an element of the variadic argument array (v is the
				// array): only the stores through it matter, and those are seen from
				// the stored value
			case *ssa.Slice:
				if bad := follow(r, seen); bad != "" {
					return bad
				}
			case *ssa.BinOp:
				if r.Op == token.EQL || r.Op == token.NEQ {
					continue
				}
				return "used in " + r.Op.String() + " at " + pos(r)
			case ssa.CallInstruction:
				name := "?"
				if f, ok := r.Common().Value.(*ssa.Function); ok {
					name = f.String()
				} else if r.Common().IsInvoke() {
					name = r.Common().Method.FullName()
				}
				if okCallee[name] {
					continue
				}
				return "passed to " + name + " at " + pos(r)
			case *ssa.Return:
				return "returned at " + pos(r)
			default:
				return fmt.Sprintf("used by %T at %s", r, pos(r))
			}
		}
		return ""
	}
	n := 0
	for _, fn := range fns {
		for _, b := range fn.Blocks {
			for _, in := range b.Instrs {
				var src ssa.Value
				what := ""
				switch v := in.(type) {
				case *ssa.Call:
					if f, ok := v.Common().Value.(*ssa.Function); ok && f.String() == "(*go/token.File).Name" {
						src, what = v, "(*token.File).Name()"
					}
				case *ssa.Field:
					if k := fieldKey(v.X.Type(), v.Field); pathFields[k] {
						src, what = v, k
					}
				case *ssa.UnOp:
					if fa, ok := v.X.(*ssa.FieldAddr); ok && v.Op == token.MUL {
						if k := fieldKey(fa.X.Type(), fa.Field); pathFields[k] {
							src, what = v, k
						}
					}
				}
				if src == nil {
					continue
				}
				n++
				bad := follow(src, map[ssa.Value]bool{})
				if bad != "" {
					sink.Structural(relName(fn), "determinism", "file-locations-reach-the-output-only-as-base-names", []string{"C17", "C16"}, false,
						what+" at "+pos(in)+" "+bad+": the generated text would depend on where the file or the output lives")
				}
			}
		}
	}
	sink.Structural("internal", "determinism", "file-locations-reach-the-output-only-as-base-names", []string{"C17", "C16"}, n > 0, fmt.Sprintf("%d reads of file locations (source file name, position file name, output path) scanned", n))
	_ = strings.TrimSpace
}
