package main

import (
	"fmt"
	"go/ast"
	"go/constant"
	"go/parser"
	"go/token"
	"path/filepath"
	"strings"

	"golang.org/x/tools/go/ssa"
)

// directiveFacts is what the *source* directive says: the ground truth the
// generated wrapper is compared with.
type directiveFacts struct {
	found     bool
	leaves    map[string]bool // expected hoisted names _L_C
	nResults  int
	nTasks    int // flow tasks / parallel Task+Tasks functions
	nPreds    int
	nFallback int
	nSlice    int
	nMap      int
	nEnd      int
	// hoisted names of the argument of cff.Concurrency / cff.ContinueOnError ("" when the option is absent)
	concurrencyLeaf string
	continueLeaf    string
	why       string
}

// directivePos extracts (file, line, column) of the directive from the
// FlowInfo / ParallelInfo literal of the wrapper.
func directivePos(fn *ssa.Function) (file string, line, col int) {
	for _, b := range fn.Blocks {
		for _, in := range b.Instrs {
			st, ok := in.(*ssa.Store)
			if !ok {
				continue
			}
			fa, ok := st.Addr.(*ssa.FieldAddr)
			if !ok {
				continue
			}
			tn := fa.X.Type().String()
			if !strings.HasSuffix(tn, "cff.FlowInfo") && !strings.HasSuffix(tn, "cff.ParallelInfo") {
				continue
			}
			c, ok := st.Val.(*ssa.Const)
			if !ok || c.Value == nil {
				continue
			}
			switch fieldName(fa) {
			case "File":
				file = constant.StringVal(c.Value)
			case "Line":
				n, _ := constant.Int64Val(c.Value)
				line = int(n)
			case "Column":
				n, _ := constant.Int64Val(c.Value)
				col = int(n)
			}
		}
	}
	return
}

func fieldName(fa *ssa.FieldAddr) string {
	return ssaStructField(fa)
}

func readDirective(testsDir string, fn *ssa.Function) *directiveFacts {
	df := &directiveFacts{leaves: map[string]bool{}}
	file, line, col := directivePos(fn)
	if file == "" || line == 0 {
		df.why = "no FlowInfo/ParallelInfo position in the wrapper"
		return df
	}
	rel := strings.TrimPrefix(file, "go.uber.org/cff/internal/tests/")
	path := filepath.Join(testsDir, rel)
	fset := token.NewFileSet()
	af, err := parser.ParseFile(fset, path, nil, 0)
	if err != nil {
		df.why = "cannot parse source " + path + ": " + err.Error()
		return df
	}
	cffName := "cff"
	for _, im := range af.Imports {
		if strings.Trim(im.Path.Value, `"`) == "go.uber.org/cff" && im.Name != nil {
			cffName = im.Name.Name
		}
	}
	var call *ast.CallExpr
	ast.Inspect(af, func(n ast.Node) bool {
		ce, ok := n.(*ast.CallExpr)
		if !ok {
			return true
		}
		p := fset.Position(ce.Pos())
		if p.Line == line && p.Column == col {
			call = ce
			return false
		}
		return true
	})
	if call == nil {
		df.why = fmt.Sprintf("no call at %s:%d:%d", path, line, col)
		return df
	}
	leaf := func(e ast.Expr) {
		if id, ok := e.(*ast.Ident); ok && id.Name == "nil" {
			return
		}
		p := fset.Position(e.Pos())
		df.leaves[fmt.Sprintf("_%d_%d", p.Line, p.Column)] = true
	}
	optName := func(e ast.Expr) (string, *ast.CallExpr) {
		ce, ok := e.(*ast.CallExpr)
		if !ok {
			return "", nil
		}
		sel, ok := ce.Fun.(*ast.SelectorExpr)
		if !ok {
			return "", nil
		}
		if id, ok := sel.X.(*ast.Ident); !ok || id.Name != cffName {
			return "", nil
		}
		return sel.Sel.Name, ce
	}
	if len(call.Args) == 0 {
		df.why = "directive without arguments"
		return df
	}
	leaf(call.Args[0])
	for _, opt := range call.Args[1:] {
		name, ce := optName(opt)
		switch name {
		case "Params", "WithEmitter":
			for _, a := range ce.Args {
				leaf(a)
			}
		case "Results":
			for _, a := range ce.Args {
				leaf(a)
				df.nResults++
			}
		case "Concurrency", "ContinueOnError", "InstrumentFlow", "InstrumentParallel":
			for _, a := range ce.Args {
				leaf(a)
			}
			if len(ce.Args) == 1 {
				ap := fset.Position(ce.Args[0].Pos())
				nm := fmt.Sprintf("_%d_%d", ap.Line, ap.Column)
				if name == "Concurrency" {
					df.concurrencyLeaf = nm
				}
				if name == "ContinueOnError" {
					df.continueLeaf = nm
				}
			}
		case "Task":
			df.nTasks++
			leaf(ce.Args[0])
			for _, to := range ce.Args[1:] {
				tn, tce := optName(to)
				switch tn {
				case "Predicate":
					df.nPreds++
					leaf(tce.Args[0])
				case "FallbackWith":
					df.nFallback++
					for _, a := range tce.Args {
						leaf(a)
					}
				case "Instrument":
					leaf(tce.Args[0])
				}
			}
		case "Tasks":
			for _, a := range ce.Args {
				df.nTasks++
				leaf(a)
			}
		case "Slice", "Map":
			if name == "Slice" {
				df.nSlice++
			} else {
				df.nMap++
			}
			leaf(ce.Args[0])
			leaf(ce.Args[1])
			for _, so := range ce.Args[2:] {
				sn, sce := optName(so)
				if sn == "SliceEnd" || sn == "MapEnd" {
					df.nEnd++
					leaf(sce.Args[0])
				}
			}
		default:
			df.why = "unrecognised directive option " + name
			return df
		}
	}
	df.found = true
	return df
}
