package main

import (
	"fmt"
	"go/ast"
	"go/types"
	"regexp"
	"sort"
	"strconv"
	"strings"

	"cffvc/vc"

	"golang.org/x/tools/go/ssa"
)

type gpass struct {
	x         *vc.Exec
	lr        *vc.LoadResult
	roles     map[string]*vc.FuncSpec
	res       *vc.PassResult
	only      string
	roleCount map[string]int
	flagSeen  map[string]bool
	testsDir  string
	infoByPath map[string]*types.Info
	modifier  bool // output of -genmode modifier

	// per-verification context
	cur     *closureCtx
	curWrap *wrapCtx
	curArg  *ssa.Function
}

type closureCtx struct {
	w        *wrapper
	jc       *jobClosure
	userCall *ssa.Call // the call of the user function inside the closure
	sig      *types.Signature
	flags    map[string]bool
}

var emitterMethods = map[string]bool{
	"TaskSuccess": true, "TaskError": true, "TaskErrorRecovered": true, "TaskPanic": true, "TaskPanicRecovered": true,
	"TaskSkipped": true, "TaskDone": true, "FlowSuccess": true, "FlowError": true, "FlowDone": true,
	"ParallelSuccess": true, "ParallelError": true, "ParallelDone": true,
}

var vCell = regexp.MustCompile(`^v\d+$`)
var pCell = regexp.MustCompile(`^p\d+$`)
var pPanicCell = regexp.MustCompile(`^p\d+PanicRecover$`)

// hoistedCallee reports whether the call's function value is loaded from a
// hoisted user expression cell (_L_C), possibly through a free variable.
func hoistedCallee(c *ssa.CallCommon) (string, bool) {
	if c.IsInvoke() {
		return "", false
	}
	ld, ok := c.Value.(*ssa.UnOp)
	if !ok {
		return "", false
	}
	switch a := ld.X.(type) {
	case *ssa.FreeVar:
		if hoistedName.MatchString(a.Name()) {
			return a.Name(), true
		}
	case *ssa.Alloc:
		if hoistedName.MatchString(a.Comment) {
			return a.Comment, true
		}
	}
	return "", false
}

func (g *gpass) configure() {
	x := g.x
	x.Classify = func(s *vc.State, c *vc.CallCtx, callee vc.Value) vc.CallMode {
		if _, ok := hoistedCallee(c.Common); ok {
			if g.curWrap != nil && g.curWrap.sequential {
				return vc.ModeOpaque
			}
			if g.curWrap != nil {
				return vc.ModeOpaque
			}
			return vc.ModeOpaquePanics
		}
		if c.Common.IsInvoke() {
			return vc.ModeOpaque
		}
		if fv, ok := callee.(*vc.FuncVal); ok {
			// closures of the generated code itself (deferred literals, job
			// closures in sequential mode) are inlined; everything else
			// (user functions, cff API, library) is opaque
			if fv.Fn.Parent() != nil && g.isGenerated(fv.Fn) {
				return vc.ModeInline
			}
			return vc.ModeOpaque
		}
		return vc.ModeOpaque
	}
	if g.modifier {
		// A-args-non-nil: the values a modifier-mode implementation receives from
		// its m<pos>() parameters are the directive's own arguments; a nil Results
		// target or task function panics in every generation mode alike
		x.NonNilResult = func(name string) bool { return strings.HasPrefix(name, "dynamic m") }
	}
	x.FuncLabel = func(fn *ssa.Function) string {
		if g.curArg != nil {
			return "role:modflow-arg"
		}
		if g.cur != nil {
			return "role:" + g.cur.jc.role
		}
		if g.curWrap != nil {
			return "role:" + g.curWrap.w.kind + "-wrapper"
		}
		return ""
	}
	x.OnInit = func(s *vc.State, f *vc.Frame) {
		if g.cur == nil {
			return
		}
		// captured pointers to the task struct were allocated with new()
		// before the closure was created (checked at wrapper level)
		for i, fv := range f.Fn.FreeVars {
			pt, ok := fv.Type().Underlying().(*types.Pointer)
			if !ok {
				continue
			}
			if ppt, ok := pt.Elem().Underlying().(*types.Pointer); ok {
				if _, isStruct := ppt.Elem().Underlying().(*types.Struct); isStruct && fv.Name() == g.cur.jc.varName {
					if tp, ok := s.Load(f.Free[i].(*vc.PtrVal)).(*vc.PtrVal); ok && tp.Ref != nil {
						s.Assume(vc.Gt(tp.Ref, vc.IntLit(0)))
					}
				}
			}
		}
	}
	x.OnExit = func(s *vc.State, f *vc.Frame, kind string, results []vc.Value) {
		if g.curArg != nil {
			g.argExit(s, f, kind, results)
		} else if g.cur != nil {
			g.closureExit(s, f, kind, results)
		} else if g.curWrap != nil {
			g.wrapperExit(s, f, kind, results)
		}
	}
}

// isGenerated: a function literal that is part of the generated wrapper (its
// outermost literal ancestor is a wrapper and it is not a hoisted user
// literal). User literals are the ones stored into _L_C cells.
func (g *gpass) isGenerated(fn *ssa.Function) bool {
	if g.cur != nil {
		for p := fn; p != nil; p = p.Parent() {
			if p == g.cur.jc.fn {
				return true
			}
		}
		return false
	}
	if g.curWrap != nil {
		if g.curWrap.userLits[fn] {
			return false
		}
		for p := fn; p != nil; p = p.Parent() {
			if g.curWrap.userLits[p] {
				return false
			}
			if p == g.curWrap.w.fn {
				return true
			}
		}
	}
	return false
}

func (g *gpass) verifyClosure(w *wrapper, jc *jobClosure) {
	role := g.roles[jc.role]
	if role == nil {
		g.res.Ungenerated[w.name+"/"+jc.varName] = "no role contract " + jc.role
		return
	}
	cc := &closureCtx{w: w, jc: jc, flags: map[string]bool{}}
	// C20 compares what the base-mode and the modifier-mode task closure do with
	// a nil panic value (a module with a go directive < 1.21); every other role
	// is verified under A-panicnil
	g.x.NilPanics = jc.role == "flow-task" || jc.role == "modflow-task"
	defer func() { g.x.NilPanics = false }()
	// locate the user call
	for _, b := range jc.fn.Blocks {
		for _, in := range b.Instrs {
			if call, ok := in.(*ssa.Call); ok {
				if _, ok := hoistedCallee(&call.Call); ok {
					if cc.userCall != nil {
						g.res.Ungenerated[w.name+"/"+jc.varName] = "more than one user call in a job closure"
						g.failShape(jc, "single-user-call", "job closure calls more than one hoisted function")
						return
					}
					cc.userCall = call
					cc.sig = call.Call.Signature()
				}
			}
		}
	}
	if cc.userCall == nil {
		g.failShape(jc, "single-user-call", "job closure "+w.name+"/"+jc.varName+" does not call a hoisted user function")
		return
	}
	// static flags
	for _, fv := range jc.fn.FreeVars {
		if pCell.MatchString(fv.Name()) {
			cc.flags["hasPred"] = true
		}
	}
	rs := cc.sig.Results()
	if rs.Len() > 0 && isErrorType(rs.At(rs.Len()-1).Type()) {
		cc.flags["hasErr"] = true
	}
	if cc.sig.Params().Len() > 0 && isContextType(cc.sig.Params().At(0).Type()) {
		cc.flags["wantCtx"] = true
	}
	cc.flags["hasFallback"] = mentionsMethod(jc.fn, "TaskPanicRecovered")
	cc.flags["instrumented"] = true
	fl := jc.role + ":"
	for _, k := range []string{"hasPred", "hasFallback", "hasErr", "wantCtx"} {
		if cc.flags[k] {
			fl += "+" + k
		}
	}
	g.flagSeen[fl] = true

	spec := &vc.FuncSpec{Name: "role:" + jc.role, MayPanic: true, Loops: map[int]*vc.LoopSpec{}, Sites: map[string]*vc.SiteSpec{}, Options: map[string]string{}}
	g.cur = cc
	defer func() { g.cur = nil }()
	before := len(g.x.Sink.Instances)
	if err := g.x.VerifyFunction(jc.fn, spec); err != nil {
		g.res.Ungenerated[w.name+"/"+jc.varName] = err.Error()
		g.x.Sink.Instances = g.x.Sink.Instances[:before]
	}
}

// failShape records a structural obligation failure for a role.
func (g *gpass) failShape(jc *jobClosure, label, why string) {
	c := &vc.Clause{Kind: "shape", Label: label, Func: "role:" + jc.role, Text: why, Props: []string{"C02", "C04"}}
	g.x.Sink.Instances = append(g.x.Sink.Instances, &vc.Instance{Name: "G.role:" + jc.role + "/shape/" + label, Clause: c, Goal: vc.False})
}

func mentionsMethod(fn *ssa.Function, name string) bool {
	found := false
	var visit func(f *ssa.Function)
	visit = func(f *ssa.Function) {
		for _, b := range f.Blocks {
			for _, in := range b.Instrs {
				if c, ok := in.(ssa.CallInstruction); ok {
					if c.Common().IsInvoke() && c.Common().Method.Name() == name {
						found = true
					}
				}
				if mc, ok := in.(*ssa.MakeClosure); ok {
					visit(mc.Fn.(*ssa.Function))
				}
			}
		}
	}
	visit(fn)
	return found
}

func isErrorType(t types.Type) bool {
	n, ok := t.(*types.Named)
	return ok && n.Obj().Pkg() == nil && n.Obj().Name() == "error"
}

func isContextType(t types.Type) bool {
	n, ok := t.(*types.Named)
	return ok && n.Obj().Pkg() != nil && n.Obj().Pkg().Path() == "context" && n.Obj().Name() == "Context"
}

// emitted is one emitter event of a path.
type emitted struct {
	method string
	args   []vc.Value
}

func emitterEvents(s *vc.State) []emitted {
	var out []emitted
	for _, ev := range s.Events {
		if ev.Kind != "call" || !strings.HasPrefix(ev.Name, "invoke ") {
			continue
		}
		i := strings.LastIndex(ev.Name, ".")
		m := ev.Name[i+1:]
		if emitterMethods[m] {
			out = append(out, emitted{m, ev.Args})
		}
	}
	return out
}

func freeVarIndex(fn *ssa.Function, name string) int {
	for i, fv := range fn.FreeVars {
		if fv.Name() == name {
			return i
		}
	}
	return -1
}

// closureExit evaluates the role contract at an exit of a job closure.
func (g *gpass) closureExit(s *vc.State, f *vc.Frame, kind string, results []vc.Value) {
	cc := g.cur
	jc := cc.jc
	role := g.roles[jc.role]
	x := g.x
	env := s.NewEnv(f)
	B := func(name string, t *vc.Term) { env.Bound[name] = vc.S(t) }
	for _, k := range []string{"hasPred", "hasFallback", "hasErr", "wantCtx"} {
		B(k, vc.BoolLit(cc.flags[k]))
	}
	B("panics", vc.BoolLit(kind == "panic"))
	if len(results) > 0 {
		env.Bound["result"] = results[0]
	} else {
		B("result", vc.IntLit(0))
	}
	// user call events
	ncalls := 0
	upanic := false
	pv := vc.IntLit(0)
	uerr := vc.IntLit(0)
	var callArgs []vc.Value
	var rets []vc.Value
	for _, ev := range s.Events {
		if ev.Instr != ssa.Instruction(cc.userCall) {
			continue
		}
		switch ev.Kind {
		case "call":
			ncalls++
			callArgs = ev.Args
			if len(ev.Rets) == 1 {
				if tv, ok := ev.Rets[0].(vc.TupleVal); ok {
					rets = tv
				} else {
					rets = ev.Rets
				}
			}
		case "call-panicked":
			ncalls++
			upanic = true
			callArgs = ev.Args[:len(ev.Args)-1]
			pv = ev.Args[len(ev.Args)-1].(*vc.Scalar).T
		case "call-goexit":
			ncalls++
		}
	}
	if cc.flags["hasErr"] && len(rets) > 0 {
		if sc, ok := rets[len(rets)-1].(*vc.Scalar); ok {
			uerr = sc.T
		}
	}
	B("ncalls", vc.IntLit(int64(ncalls)))
	B("called", vc.BoolLit(ncalls == 1))
	B("upanic", vc.BoolLit(upanic))
	B("pv", pv)
	B("uerr", uerr)

	// cells
	entry := func(name string) vc.Value {
		i := freeVarIndex(jc.fn, name)
		if i < 0 {
			return nil
		}
		p := f.Free[i].(*vc.PtrVal)
		if p.Cell == nil {
			return nil
		}
		return s.OldCells[p.Cell]
	}
	final := func(name string) vc.Value {
		i := freeVarIndex(jc.fn, name)
		if i < 0 {
			return nil
		}
		p := f.Free[i].(*vc.PtrVal)
		return s.Load(p)
	}
	pred := vc.True
	predPanic := vc.IntLit(0)
	var vNames []string
	var fallbackNames []string
	calleeName, _ := hoistedCallee(&cc.userCall.Call)
	for _, fv := range jc.fn.FreeVars {
		n := fv.Name()
		switch {
		case pCell.MatchString(n):
			if v, ok := entry(n).(*vc.Scalar); ok {
				pred = v.T
			}
		case pPanicCell.MatchString(n):
			if v, ok := entry(n).(*vc.Scalar); ok {
				predPanic = v.T
			}
		case vCell.MatchString(n):
			vNames = append(vNames, n)
		case hoistedName.MatchString(n) && n != calleeName:
			fallbackNames = append(fallbackNames, n)
		}
	}
	sort.Slice(fallbackNames, func(i, j int) bool { return hoistLess(fallbackNames[i], fallbackNames[j]) })
	B("pred", pred)
	B("predPanic", predPanic)
	B("predEntry", pred)
	B("predPanicEntry", predPanic)
	predFinal, predPanicFinal := pred, predPanic
	for _, fv := range jc.fn.FreeVars {
		n := fv.Name()
		if pCell.MatchString(n) {
			if v, ok := final(n).(*vc.Scalar); ok {
				predFinal = v.T
			}
		}
		if pPanicCell.MatchString(n) {
			if v, ok := final(n).(*vc.Scalar); ok {
				predPanicFinal = v.T
			}
		}
	}
	B("predFinal", predFinal)
	B("predPanicFinal", predPanicFinal)
	uret := vc.False
	if len(rets) > 0 {
		if sc, ok := rets[0].(*vc.Scalar); ok && sc.T.Sort == vc.SBool {
			uret = sc.T
		}
	}
	B("uret", uret)

	// ran flag of the task struct
	ranEntry, ranFinal := vc.False, vc.False
	if i := freeVarIndex(jc.fn, jc.varName); i >= 0 {
		if tp, ok := s.Load(f.Free[i].(*vc.PtrVal)).(*vc.PtrVal); ok && tp.Ref != nil {
			ranFinal = vc.Select(heapOr(s.Heap, "atomic.Bool.v"), tp.Ref)
			ranEntry = vc.Select(heapOr(s.Old, "atomic.Bool.v"), tp.Ref)
		}
	}
	B("ranFinal", ranFinal)
	B("ranEntry", ranEntry)

	// output cells by type
	cellOfType := func(t types.Type) string {
		for _, n := range vNames {
			i := freeVarIndex(jc.fn, n)
			et := jc.fn.FreeVars[i].Type().Underlying().(*types.Pointer).Elem()
			if types.Identical(et, t) {
				return n
			}
		}
		return ""
	}
	unchanged := func(except map[string]bool) *vc.Term {
		var cs []*vc.Term
		for _, n := range vNames {
			if except[n] {
				continue
			}
			cs = append(cs, valueEq(s, entry(n), final(n)))
		}
		return vc.And(cs...)
	}
	B("outUnchanged", unchanged(nil))
	nOut := cc.sig.Results().Len()
	if cc.flags["hasErr"] {
		nOut--
	}
	shapeOK := true
	outFromCall := vc.True
	outFromFallback := vc.True
	outs := map[string]bool{}
	for k := 0; k < nOut; k++ {
		cn := cellOfType(cc.sig.Results().At(k).Type())
		if cn == "" {
			shapeOK = false
			continue
		}
		outs[cn] = true
		if k < len(rets) {
			outFromCall = vc.And(outFromCall, valueEq(s, final(cn), rets[k]))
		} else if ncalls == 1 && !upanic {
			shapeOK = false
		}
		if cc.flags["hasFallback"] {
			outT := cc.sig.Results().At(k).Type()
			conv := func(name string) vc.Value {
				i := freeVarIndex(jc.fn, name)
				ft := jc.fn.FreeVars[i].Type().Underlying().(*types.Pointer).Elem()
				v := entry(name)
				if _, isIface := outT.Underlying().(*types.Interface); isIface && v != nil {
					return x.MakeInterface(s, v, ft)
				}
				return v
			}
			if len(fallbackNames) == nOut {
				outFromFallback = vc.And(outFromFallback, valueEq(s, final(cn), conv(fallbackNames[k])))
			} else {
				// some fallback values are the literal nil, which is not hoisted:
				// the output is one of the hoisted fallback values or the zero value
				alts := []*vc.Term{valueEq(s, final(cn), s.ZeroValue(outT))}
				for _, fbn := range fallbackNames {
					alts = append(alts, valueEq(s, final(cn), conv(fbn)))
				}
				outFromFallback = vc.And(outFromFallback, vc.Or(alts...))
			}
		}
	}
	B("outFromCall", vc.And(outFromCall, unchanged(outs)))
	B("outFromFallback", vc.And(outFromFallback, unchanged(outs)))

	// arguments of the user call
	argsOK := vc.True
	if ncalls == 1 {
		k0 := 0
		ps := cc.sig.Params()
		if cc.flags["wantCtx"] {
			k0 = 1
			if len(callArgs) > 0 {
				argsOK = vc.And(argsOK, valueEq(s, callArgs[0], f.EntryArgs[0]))
			}
		}
		if jc.role == "flow-task" || jc.role == "flow-predicate" {
			for k := k0; k < ps.Len() && k < len(callArgs); k++ {
				cn := cellOfType(ps.At(k).Type())
				if cn == "" {
					shapeOK = false
					continue
				}
				argsOK = vc.And(argsOK, valueEq(s, callArgs[k], entry(cn)))
			}
		} else if jc.role == "slice-elem" || jc.role == "map-elem" {
			// (idx, val) / (val) / (key, val): per-iteration copies captured by the closure
			var names []string
			switch {
			case jc.role == "map-elem":
				names = []string{"key", "val"}
			case ps.Len()-k0 == 2:
				names = []string{"idx", "val"}
			default:
				names = []string{"val"}
			}
			for i, n := range names {
				if k0+i >= len(callArgs) || entry(n) == nil {
					shapeOK = false
					continue
				}
				want := entry(n)
				fi := freeVarIndex(jc.fn, n)
				ft := jc.fn.FreeVars[fi].Type().Underlying().(*types.Pointer).Elem()
				if _, isIface := ps.At(k0 + i).Type().Underlying().(*types.Interface); isIface {
					want = x.MakeInterface(s, want, ft)
				}
				argsOK = vc.And(argsOK, valueEq(s, callArgs[k0+i], want))
			}
		}
		if len(callArgs) != ps.Len() {
			shapeOK = false
		}
	}
	B("argsOK", argsOK)
	B("shapeOK", vc.BoolLit(shapeOK))

	evs := emitterEvents(s)
	x.SpecFuncs["events"] = func(e *vc.Env, a []vc.Value) vc.Value {
		want := strings.TrimSpace(specString(e, a[0]))
		var got []string
		for _, ev := range evs {
			got = append(got, ev.method)
		}
		return vc.S(vc.BoolLit(strings.Join(got, ",") == want))
	}
	x.SpecFuncs["evarg"] = func(e *vc.Env, a []vc.Value) vc.Value {
		m := specString(e, a[0])
		idx, _ := a[1].(*vc.Scalar).T.IntVal()
		for _, ev := range evs {
			if ev.method == m && int(idx) < len(ev.args) {
				return ev.args[idx]
			}
		}
		return vc.S(vc.IntLit(-1))
	}
	x.SpecFuncs["isPanicErr"] = func(e *vc.Env, a []vc.Value) vc.Value {
		return vc.S(g.isPanicErr(e.S, a[0].(*vc.Scalar).T, a[1].(*vc.Scalar).T))
	}
	x.SpecFuncs["ctxparam"] = func(e *vc.Env, a []vc.Value) vc.Value { return f.EntryArgs[0] }

	for _, c := range role.Requires {
		t, err := env.EvalBool(c.Expr)
		if err != nil {
			g.res.Ungenerated["role:"+jc.role] = "requires " + c.Label + ": " + err.Error()
			return
		}
		s.Assume(t)
	}
	for _, c := range role.Ensures {
		t, err := env.EvalBool(c.Expr)
		if err != nil {
			g.res.Ungenerated["role:"+jc.role] = "ensures " + c.Label + ": " + err.Error()
			return
		}
		cl := *c
		cl.Func = "role:" + jc.role
		s.Trace = append(s.Trace, "instance "+cc.w.name+"/"+jc.varName)
		x.Sink.Assert(s, f, &cl, t, cc.userCall)
	}
}

func heapOr(h map[string]*vc.Term, name string) *vc.Term {
	if t, ok := h[name]; ok {
		return t
	}
	return vc.Atom("H0."+name, vc.SArr(vc.SInt, vc.SBool))
}

func valueEq(s *vc.State, a, b vc.Value) *vc.Term {
	if a == nil || b == nil {
		return vc.False
	}
	return s.ValueEq(a, b)
}

func (g *gpass) isPanicErr(s *vc.State, e, v *vc.Term) *vc.Term {
	tid := vc.IntLit(g.x.TypeIDByName("*go.uber.org/cff.PanicError"))
	data := g.x.DataOf(e)
	val := vc.Select(s.HeapComp("go.uber.org_cff.PanicError.Value", vc.SArr(vc.SInt, vc.SInt)), data)
	return vc.And(vc.Eq(g.x.TypeOf(e), tid), vc.Neq(data, vc.IntLit(0)), vc.Eq(val, v))
}

func specString(e *vc.Env, v vc.Value) string {
	if sc, ok := v.(*vc.Scalar); ok {
		if n, ok := sc.T.IntVal(); ok {
			return e.S.X.StringOf(n)
		}
	}
	return ""
}

func hoistLess(a, b string) bool {
	pa := strings.Split(strings.TrimPrefix(a, "_"), "_")
	pb := strings.Split(strings.TrimPrefix(b, "_"), "_")
	la, _ := strconv.Atoi(pa[0])
	lb, _ := strconv.Atoi(pb[0])
	if la != lb {
		return la < lb
	}
	ca, _ := strconv.Atoi(pa[1])
	cb, _ := strconv.Atoi(pb[1])
	return ca < cb
}

var _ = fmt.Sprintf
var _ ast.Expr
