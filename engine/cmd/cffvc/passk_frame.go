package main

import (
	"fmt"
	"go/token"
	"go/types"
	"os"
	"path/filepath"
	"sort"
	"strings"

	"cffvc/vc"

	"golang.org/x/tools/go/ssa"
)

// Structural (frame) obligations of pass K and the bounded stand-in.

var kPackages = []string{
	"go.uber.org/cff/internal", "go.uber.org/cff/internal/flag", "go.uber.org/cff/internal/pkg",
	"go.uber.org/cff/internal/modifier", "go.uber.org/cff/cmd/cff",
}

func inKPackages(fn *ssa.Function) bool {
	pkg := fn.Pkg
	for p := fn; pkg == nil && p != nil; p = p.Parent() {
		pkg = p.Pkg
	}
	if pkg == nil {
		return false
	}
	for _, p := range kPackages {
		if pkg.Pkg.Path() == p {
			return true
		}
	}
	return false
}

func relName(fn *ssa.Function) string {
	pkg := fn.Pkg
	for p := fn; pkg == nil && p != nil; p = p.Parent() {
		pkg = p.Pkg
	}
	short := pkg.Pkg.Path()
	short = short[strings.LastIndex(short, "/")+1:]
	return short + "." + fn.RelString(pkg.Pkg)
}

type kSite struct {
	fn   *ssa.Function
	in   ssa.Instruction
	desc string
}

func sortedFuncs(lr *vc.LoadResult) []*ssa.Function {
	var fns []*ssa.Function
	for _, fn := range lr.Funcs {
		if inKPackages(fn) && len(fn.Blocks) > 0 && fn.Synthetic == "" {
			fns = append(fns, fn)
		}
	}
	sort.Slice(fns, func(i, j int) bool { return relName(fns[i]) < relName(fns[j]) })
	return fns
}

func kStructural(x *vc.Exec, lr *vc.LoadResult, repo string, res *vc.PassResult, frames []vc.FrameDecl) {
	sink := x.Sink
	fset := lr.Prog.Fset
	pos := func(in ssa.Instruction) string {
		p := fset.Position(in.Pos())
		return fmt.Sprintf("%s:%d", filepath.Base(p.Filename), p.Line)
	}
	declared := map[string]vc.FrameDecl{}
	used := map[string]bool{}
	for _, fd := range frames {
		declared[fmt.Sprintf("%s %s #%d", fd.Kind, fd.Func, fd.Ordinal)] = fd
	}
	// ---- enumerate sites per function, in source order
	type perFn struct {
		mapiter, nondet, fswrite []kSite
	}
	sites := map[*ssa.Function]*perFn{}
	fns := sortedFuncs(lr)
	for _, fn := range fns {
		pf := &perFn{}
		type item struct {
			s    kSite
			kind string
		}
		var items []item
		for _, b := range fn.Blocks {
			for _, in := range b.Instrs {
				switch in := in.(type) {
				case *ssa.Range:
					if _, ok := in.X.Type().Underlying().(*types.Map); ok {
						items = append(items, item{kSite{fn, in, "range over " + in.X.Type().String()}, "mapiter"})
					}
				case ssa.CallInstruction:
					c := in.Common()
					f, ok := c.Value.(*ssa.Function)
					if !ok {
						continue
					}
					full := f.String()
					switch {
					case strings.HasPrefix(full, "(*golang.org/x/tools/go/types/typeutil.Map).Keys"), strings.HasPrefix(full, "(*golang.org/x/tools/go/types/typeutil.Map).Iterate"):
						items = append(items, item{kSite{fn, in, full}, "mapiter"})
					case f.Pkg != nil && (f.Pkg.Pkg.Path() == "math/rand" || f.Pkg.Pkg.Path() == "crypto/rand"),
						full == "time.Now", full == "os.Getenv", full == "os.Getpid", full == "os.Hostname", full == "os.Environ":
						items = append(items, item{kSite{fn, in, full}, "nondet"})
					case full == "os.WriteFile", full == "os.Create", full == "os.OpenFile", full == "os.Rename", full == "os.Remove", full == "os.RemoveAll",
						full == "os.Mkdir", full == "os.MkdirAll", full == "os.CreateTemp", full == "os.MkdirTemp", full == "io/ioutil.WriteFile", full == "os.Truncate", full == "os.Symlink", full == "os.Link":
						items = append(items, item{kSite{fn, in, full}, "fswrite"})
					}
				}
			}
		}
		sort.SliceStable(items, func(i, j int) bool { return items[i].s.in.Pos() < items[j].s.in.Pos() })
		for _, it := range items {
			switch it.kind {
			case "mapiter":
				pf.mapiter = append(pf.mapiter, it.s)
			case "nondet":
				pf.nondet = append(pf.nondet, it.s)
			case "fswrite":
				pf.fswrite = append(pf.fswrite, it.s)
			}
		}
		sites[fn] = pf
	}
	counts := map[string]int{}
	for _, fn := range fns {
		pf := sites[fn]
		name := relName(fn)
		// C17: every map iteration is justified
		for i, s := range pf.mapiter {
			key := fmt.Sprintf("mapiter %s #%d", name, i+1)
			fd, ok := declared[key]
			used[key] = true
			counts["map_iterations"]++
			good, why := false, "map iteration without a determinism justification in the contract file: "+s.desc+" at "+pos(s.in)
			if ok {
				good, why = checkMapIter(fn, s, fd)
				why = fd.Why + ": " + why + " (" + pos(s.in) + ")"
			}
			sink.Structural(name, "determinism", fmt.Sprintf("map-iteration-%d-order-cannot-reach-the-output", i+1), []string{"C17"}, good, why)
		}
		for i, s := range pf.nondet {
			key := fmt.Sprintf("nondet %s #%d", name, i+1)
			fd, ok := declared[key]
			used[key] = true
			counts["nondeterminism_sources"]++
			why := "undeclared source of nondeterminism " + s.desc + " at " + pos(s.in)
			if ok {
				why = fd.Why + ": " + fd.Text + " (" + s.desc + " at " + pos(s.in) + ")"
			}
			sink.Structural(name, "determinism", fmt.Sprintf("nondeterminism-source-%d-declared", i+1), []string{"C17"}, ok, why)
		}
		// C16: file-system writes
		for i, s := range pf.fswrite {
			key := fmt.Sprintf("fswrite %s #%d", name, i+1)
			fd, ok := declared[key]
			used[key] = true
			counts["fs_write_sites"]++
			good, why := false, "undeclared file-system write "+s.desc+" at "+pos(s.in)
			if ok {
				good, why = checkFsWrite(s, fd)
				why = fd.Why + ": " + why + " (" + s.desc + " at " + pos(s.in) + ")"
			}
			sink.Structural(name, "frame", fmt.Sprintf("file-write-%d-targets-only-the-output-path", i+1), []string{"C16"}, good, why)
		}
	}
	// declared but absent sites are stale, not alarms
	for key := range declared {
		if !used[key] {
			res.Stale = append(res.Stale, "frame "+key)
		}
	}
	// C16: outputPath is assigned only from the generator options
	for _, fn := range fns {
		for _, b := range fn.Blocks {
			for _, in := range b.Instrs {
				st, ok := in.(*ssa.Store)
				if !ok {
					continue
				}
				fa, ok := st.Addr.(*ssa.FieldAddr)
				if !ok || ssaStructField(fa) != "outputPath" {
					continue
				}
				good := false
				if ld, ok := st.Val.(*ssa.UnOp); ok {
					if fa2, ok := ld.X.(*ssa.FieldAddr); ok && ssaStructField(fa2) == "OutputPath" {
						good = true
					}
				}
				if f, ok := st.Val.(*ssa.Field); ok {
					if st2, ok := f.X.Type().Underlying().(*types.Struct); ok && st2.Field(f.Field).Name() == "OutputPath" {
						good = true
					}
				}
				sink.Structural(relName(fn), "frame", "output-path-field-comes-from-the-options", []string{"C16"}, good, pos(in))
			}
		}
	}
	// C17 / C16: Process builds a fresh compiler and generator per file and hands the caller's output path to it
	if fn := lr.Funcs["go.uber.org/cff/internal::(*Processor).Process"]; fn != nil {
		good, why := checkProcessFresh(fn)
		sink.Structural("internal.(*Processor).Process", "frame", "fresh-compiler-and-generator-per-file", []string{"C17", "C16", "C14"}, good, why)
	}
	// C17: no package-level variable is written outside initialisation
	for _, fn := range fns {
		if fn.Name() == "init" || strings.HasPrefix(fn.Name(), "init#") {
			continue
		}
		for _, b := range fn.Blocks {
			for _, in := range b.Instrs {
				if st, ok := in.(*ssa.Store); ok {
					if g, ok := st.Addr.(*ssa.Global); ok {
						counts["global_stores"]++
						sink.Structural(relName(fn), "determinism", "no-package-level-state-written", []string{"C17"}, false, "store to package variable "+g.Name()+" at "+pos(in))
					}
				}
			}
		}
	}
	sink.Structural("internal", "determinism", "no-package-level-state-written", []string{"C17"}, true, fmt.Sprintf("%d functions scanned", len(fns)))
	// C17: ... and no package-level variable of the generator's packages is used
	// other than by reading its value: its address is never taken (method call
	// with a pointer receiver, field address, argument), so no state can be kept
	// in it from one file or directive to the next
	nglob := 0
	for _, fn := range fns {
		if fn.Name() == "init" || strings.HasPrefix(fn.Name(), "init#") {
			continue
		}
		for _, b := range fn.Blocks {
			for _, in := range b.Instrs {
				for _, op := range in.Operands(nil) {
					g, ok := (*op).(*ssa.Global)
					if !ok || g.Pkg == nil || !strings.HasPrefix(g.Pkg.Pkg.Path(), "go.uber.org/cff") {
						continue
					}
					nglob++
					if ld, ok := in.(*ssa.UnOp); ok && ld.Op == token.MUL && ld.X == g {
						continue // plain read of the variable's value
					}
					if _, ok := in.(*ssa.DebugRef); ok {
						continue
					}
					if st, ok := in.(*ssa.Store); ok && st.Addr == g {
						continue // reported above
					}
					counts["global_address_uses"]++
					sink.Structural(relName(fn), "determinism", "package-level-variables-are-only-read", []string{"C17"}, false,
						"address of package variable "+g.Name()+" used at "+pos(in)+" ("+strings.TrimSpace(in.String())+"): state reachable through it outlives the file being generated")
				}
			}
		}
	}
	sink.Structural("internal", "determinism", "package-level-variables-are-only-read", []string{"C17"}, true, fmt.Sprintf("%d uses of package variables scanned", nglob))
	// A-slice: the engine gives slices value semantics (append returns a new
	// value). That is unsound exactly where a re-sliced view x[a:b] of a live
	// slice is written through (append into its spare capacity, element store,
	// copy destination). No such write exists in the module; each one found is a
	// failed frame obligation.
	nres := 0
	for _, fn := range fns {
		for _, b := range fn.Blocks {
			for _, in := range b.Instrs {
				sl, ok := in.(*ssa.Slice)
				if !ok {
					continue
				}
				if _, isSlice := sl.X.Type().Underlying().(*types.Slice); !isSlice {
					continue
				}
				nres++
				if w := writtenThrough(sl); w != "" {
					sink.Structural(relName(fn), "frame", "no-write-through-a-resliced-view-of-a-live-slice", []string{"C02", "C10", "C11", "C13", "C14", "C16"}, false,
						"re-slice at "+pos(sl)+" is "+w+": the write lands in the backing array shared with the original slice")
				}
			}
		}
	}
	counts["reslices_of_slices"] = nres
	sink.Structural("internal", "frame", "no-write-through-a-resliced-view-of-a-live-slice", []string{"C02", "C10", "C11", "C13", "C14", "C16"}, true, fmt.Sprintf("%d re-slice expressions scanned in %d functions", nres, len(fns)))
	// A-typeid: the engine identifies a go/types.Type with its identity term. That
	// matches the library only where types are compared through types.Identical /
	// typeutil.Map; a direct == or != between two types.Type values (other than
	// against nil) compares pointers and distinguishes identical composite types.
	ncmp := 0
	for _, fn := range fns {
		for _, b := range fn.Blocks {
			for _, in := range b.Instrs {
				bo, ok := in.(*ssa.BinOp)
				if !ok || (bo.Op != token.EQL && bo.Op != token.NEQ) {
					continue
				}
				if !isGoTypesType(bo.X.Type()) && !isGoTypesType(bo.Y.Type()) {
					continue
				}
				if isNilConst(bo.X) || isNilConst(bo.Y) {
					continue
				}
				ncmp++
				sink.Structural(relName(fn), "frame", "types-are-compared-by-identity-of-meaning-not-of-pointer", []string{"C14", "C02", "C11", "C13"}, false,
					"go/types.Type values compared with "+bo.Op.String()+" at "+pos(bo)+": identical composite types have distinct pointers (use types.Identical or typeutil.Map)")
			}
		}
	}
	sink.Structural("internal", "frame", "types-are-compared-by-identity-of-meaning-not-of-pointer", []string{"C14", "C02", "C11", "C13"}, true, fmt.Sprintf("%d functions scanned, %d pointer comparisons of types", len(fns), ncmp))
	// C17: the Processor - the one object that lives across the files of a run -
	// carries configuration only: no function of the module stores to one of its
	// fields or updates a map / appends to a slice held in one, so nothing can
	// be remembered from one file to the next.
	nProcAcc := 0
	for _, fn := range fns {
		for _, b := range fn.Blocks {
			for _, in := range b.Instrs {
				fa, ok := in.(*ssa.FieldAddr)
				if !ok {
					continue
				}
				pt, ok := fa.X.Type().Underlying().(*types.Pointer)
				if !ok {
					continue
				}
				nt, ok := pt.Elem().(*types.Named)
				if !ok || nt.Obj().Name() != "Processor" || nt.Obj().Pkg() == nil || nt.Obj().Pkg().Path() != "go.uber.org/cff/internal" {
					continue
				}
				nProcAcc++
				for _, r := range *fa.Referrers() {
					bad := ""
					switch r := r.(type) {
					case *ssa.Store:
						if r.Addr == fa {
							if _, isAlloc := fa.X.(*ssa.Alloc); !isAlloc {
								bad = "store to Processor." + ssaStructField(fa)
							}
						}
					case *ssa.UnOp:
						if r.Referrers() != nil {
							for _, u := range *r.Referrers() {
								switch u := u.(type) {
								case *ssa.MapUpdate:
									if u.Map == r {
										bad = "update of the map in Processor." + ssaStructField(fa)
									}
								case *ssa.IndexAddr:
									if u.X == r {
										bad = "element access of Processor." + ssaStructField(fa)
									}
								}
							}
						}
					}
					if bad != "" {
						sink.Structural(relName(fn), "determinism", "the-processor-keeps-no-state-between-files", []string{"C17"}, false, bad+" at "+pos(r))
					}
				}
			}
		}
	}
	sink.Structural("internal", "determinism", "the-processor-keeps-no-state-between-files", []string{"C17"}, true, fmt.Sprintf("%d accesses to Processor fields scanned", nProcAcc))
	// C02 / C12: the id tables of the generators (typeIDs, nextTypeID, predIDs,
	// nextPredID) are written only by their constructor and by typeID / predID,
	// whose contracts keep them injective; no other function stores to the fields
	// or calls Set / Delete on the maps.
	idFields := map[string]bool{"typeIDs": true, "nextTypeID": true, "predIDs": true, "nextPredID": true}
	idOwners := map[string]bool{"newGenerator": true, "newGeneratorV2": true, "typeID": true, "predID": true}
	nIDAcc := 0
	for _, fn := range fns {
		root := fn
		for root.Parent() != nil {
			root = root.Parent()
		}
		for _, b := range fn.Blocks {
			for _, in := range b.Instrs {
				fa, ok := in.(*ssa.FieldAddr)
				if !ok || !idFields[ssaStructField(fa)] {
					continue
				}
				pt, ok := fa.X.Type().Underlying().(*types.Pointer)
				if !ok {
					continue
				}
				if nt, ok := pt.Elem().(*types.Named); !ok || (nt.Obj().Name() != "generator" && nt.Obj().Name() != "generatorv2") {
					continue
				}
				for _, r := range *fa.Referrers() {
					bad := ""
					switch r := r.(type) {
					case *ssa.Store:
						if r.Addr == fa {
							bad = "store to " + ssaStructField(fa)
						}
					case *ssa.UnOp:
						// the loaded map must not be mutated or leaked outside the owners
						if r.Referrers() != nil {
							for _, u := range *r.Referrers() {
								if c, ok := u.(ssa.CallInstruction); ok {
									if f, ok := c.Common().Value.(*ssa.Function); ok && (f.Name() == "Set" || f.Name() == "Delete" || f.Name() == "SetHasher") {
										bad = f.Name() + " on " + ssaStructField(fa)
									}
								}
							}
						}
					}
					if bad == "" {
						continue
					}
					nIDAcc++
					good := idOwners[root.Name()]
					sink.Structural(relName(fn), "frame", "id-tables-written-only-by-their-owners", []string{"C02", "C11", "C12", "C20"}, good, bad+" at "+pos(r))
				}
			}
		}
	}
	sink.Structural("internal", "frame", "id-tables-written-only-by-their-owners", []string{"C02", "C11", "C12", "C20"}, true, fmt.Sprintf("%d writes to the generators' id tables, all in newGenerator*/typeID/predID", nIDAcc))
	// C20: the source-map flag only selects comment emission
	checkSourceMapFrame(sink, lr, fns, pos)
	// C17: file locations reach the output only as base names
	checkPathFrame(sink, fns, pos)
	res.Extra["frame_counts"] = counts
	boundedBuildTag(sink, repo, res)
}

// checkMapIter validates the declared justification of a map iteration.
func checkMapIter(fn *ssa.Function, s kSite, fd vc.FrameDecl) (bool, string) {
	switch fd.Why {
	case "sorted-after":
		// the function sorts after the iteration: a call to sort.Strings / sort.Slice / sort.Sort later in source order
		for _, b := range fn.Blocks {
			for _, in := range b.Instrs {
				if c, ok := in.(ssa.CallInstruction); ok {
					if f, ok := c.Common().Value.(*ssa.Function); ok && f.Pkg != nil && f.Pkg.Pkg.Path() == "sort" && in.Pos() > s.in.Pos() {
						if loopOnlyAccumulates(fn, s) {
							return true, "iteration only appends; " + f.String() + " follows"
						}
						return false, "iteration body has effects other than appending to the sorted slice"
					}
				}
			}
		}
		return false, "no sort call follows the iteration"
	case "commutative-insert":
		if loopOnlyInserts(fn, s) {
			return true, "iteration only inserts into a map"
		}
		return false, "iteration body has effects other than map insertion"
	case "diagnostics-only":
		if loopOnlyCalls(fn, s, []string{"errf", "nodePosition", "position", "Errorf", "Sprintf", "At", "String", "Error"}) {
			return true, "iteration only reports diagnostics (no file is written when there are diagnostics)"
		}
		return false, "iteration body does more than report diagnostics"
	}
	return false, "unknown justification " + fd.Why
}

// loopBlocks: the blocks of the loop that iterates the Range instruction / the
// slice returned by Keys().
func loopBlocks(fn *ssa.Function, s kSite) map[*ssa.BasicBlock]bool {
	blocks := map[*ssa.BasicBlock]bool{}
	var nextBlock *ssa.BasicBlock
	switch in := s.in.(type) {
	case *ssa.Range:
		for _, r := range *in.Referrers() {
			if nx, ok := r.(*ssa.Next); ok {
				nextBlock = nx.Block()
			}
		}
	case *ssa.Call:
		// Keys(): find a rangeindex loop over the result
		for _, r := range *in.Referrers() {
			if c, ok := r.(*ssa.Call); ok {
				if b, ok := c.Call.Value.(*ssa.Builtin); ok && b.Name() == "len" {
					for _, r2 := range *c.Referrers() {
						if bo, ok := r2.(*ssa.BinOp); ok {
							nextBlock = bo.Block()
						}
					}
				}
			}
		}
	}
	if nextBlock == nil {
		return blocks
	}
	// natural loop with header nextBlock
	for _, b := range fn.Blocks {
		for _, succ := range b.Succs {
			if succ == nextBlock && nextBlock.Dominates(b) {
				stack := []*ssa.BasicBlock{b}
				blocks[nextBlock] = true
				for len(stack) > 0 {
					n := stack[len(stack)-1]
					stack = stack[:len(stack)-1]
					if blocks[n] {
						continue
					}
					blocks[n] = true
					stack = append(stack, n.Preds...)
				}
			}
		}
	}
	return blocks
}

func loopEffects(fn *ssa.Function, s kSite, allowCall func(c *ssa.CallCommon) bool, allowStore func(st *ssa.Store) bool, allowMapUpdate bool) bool {
	blocks := loopBlocks(fn, s)
	if len(blocks) == 0 {
		return false
	}
	for b := range blocks {
		for _, in := range b.Instrs {
			switch in := in.(type) {
			case *ssa.Call:
				if !allowCall(&in.Call) {
					return false
				}
			case *ssa.Store:
				if !allowStore(in) {
					return false
				}
			case *ssa.MapUpdate:
				if !allowMapUpdate {
					return false
				}
			case *ssa.Go, *ssa.Defer, *ssa.Send, *ssa.Panic:
				return false
			}
		}
	}
	return true
}

func isBuiltin(c *ssa.CallCommon, names ...string) bool {
	b, ok := c.Value.(*ssa.Builtin)
	if !ok {
		return false
	}
	for _, n := range names {
		if b.Name() == n {
			return true
		}
	}
	return false
}

func localStore(st *ssa.Store) bool {
	// stores into freshly built local arrays (varargs) and local variables
	switch a := st.Addr.(type) {
	case *ssa.IndexAddr:
		_, ok := a.X.(*ssa.Alloc)
		return ok
	case *ssa.Alloc:
		return true
	}
	return false
}

func pureAccessor(c *ssa.CallCommon) bool {
	switch shortName(c) {
	case "Pos", "End", "IsValid", "Len", "String", "Name":
		return true
	}
	return false
}

func loopOnlyAccumulates(fn *ssa.Function, s kSite) bool {
	return loopEffects(fn, s, func(c *ssa.CallCommon) bool { return isBuiltin(c, "append", "len") || pureAccessor(c) }, localStore, false)
}

func loopOnlyInserts(fn *ssa.Function, s kSite) bool {
	return loopEffects(fn, s, func(c *ssa.CallCommon) bool { return isBuiltin(c, "len") }, localStore, true)
}

func loopOnlyCalls(fn *ssa.Function, s kSite, names []string) bool {
	return loopEffects(fn, s, func(c *ssa.CallCommon) bool {
		if isBuiltin(c, "len", "append") {
			return true
		}
		n := shortName(c)
		for _, a := range names {
			if n == a {
				return true
			}
		}
		return false
	}, localStore, false)
}

func shortName(c *ssa.CallCommon) string {
	if c.IsInvoke() {
		return c.Method.Name()
	}
	if f, ok := c.Value.(*ssa.Function); ok {
		return f.Name()
	}
	return ""
}

// checkFsWrite validates the declared target of a file-system write.
func checkFsWrite(s kSite, fd vc.FrameDecl) (bool, string) {
	c := s.in.(ssa.CallInstruction).Common()
	switch fd.Why {
	case "output-path":
		if len(c.Args) == 0 {
			return false, "no path operand"
		}
		if ld, ok := c.Args[0].(*ssa.UnOp); ok {
			if fa, ok := ld.X.(*ssa.FieldAddr); ok && ssaStructField(fa) == "outputPath" {
				return true, "path operand is the generator's outputPath field"
			}
		}
		return false, "path operand is not the generator's outputPath field"
	case "temp-file-on-error-path":
		if f, ok := c.Value.(*ssa.Function); ok && f.String() == "os.CreateTemp" {
			if cst, ok := c.Args[0].(*ssa.Const); ok && cst.Value != nil && cst.Value.ExactString() == `""` {
				return true, "temporary file in the system temp directory, created only after the generated text failed to parse (the call then returns an error)"
			}
		}
		return false, "not os.CreateTemp in the default temp directory"
	}
	return false, "unknown justification " + fd.Why
}

// checkProcessFresh: Process calls newCompiler once, newGenerator /
// newGeneratorV2 on a literal of generatorOpts whose OutputPath is the
// parameter, and GenerateFile on that result.
func checkProcessFresh(fn *ssa.Function) (bool, string) {
	nComp := 0
	okGen := true
	nGen := 0
	var outParam *ssa.Parameter
	for _, p := range fn.Params {
		if p.Name() == "outputPath" {
			outParam = p
		}
	}
	if outParam == nil {
		return false, "Process has no outputPath parameter"
	}
	for _, b := range fn.Blocks {
		for _, in := range b.Instrs {
			call, ok := in.(*ssa.Call)
			if !ok {
				continue
			}
			f, _ := call.Call.Value.(*ssa.Function)
			if f == nil {
				continue
			}
			switch f.Name() {
			case "newCompiler":
				nComp++
			case "newGenerator", "newGeneratorV2":
				nGen++
				// the options literal stores the parameter into OutputPath
				found := false
				if ld, ok := call.Call.Args[0].(*ssa.UnOp); ok {
					if al, ok := ld.X.(*ssa.Alloc); ok {
						for _, r := range *al.Referrers() {
							if fa, ok := r.(*ssa.FieldAddr); ok && ssaStructField(fa) == "OutputPath" {
								for _, r2 := range *fa.Referrers() {
									if st, ok := r2.(*ssa.Store); ok && st.Val == outParam {
										found = true
									}
								}
							}
						}
					}
				}
				if !found {
					okGen = false
				}
			case "GenerateFile":
				recv := call.Call.Args[0]
				c2, ok := recv.(*ssa.Call)
				if !ok {
					okGen = false
					continue
				}
				f2, _ := c2.Call.Value.(*ssa.Function)
				if f2 == nil || (f2.Name() != "newGenerator" && f2.Name() != "newGeneratorV2") {
					okGen = false
				}
			case "CompileFile":
				recv := call.Call.Args[0]
				c2, ok := recv.(*ssa.Call)
				if !ok {
					okGen = false
					continue
				}
				if f2, _ := c2.Call.Value.(*ssa.Function); f2 == nil || f2.Name() != "newCompiler" {
					okGen = false
				}
			}
		}
	}
	// generation happens only after CompileFile returned a nil error
	var okBranch *ssa.BasicBlock
	for _, b := range fn.Blocks {
		for _, in := range b.Instrs {
			iff, ok := in.(*ssa.If)
			if !ok {
				continue
			}
			bo, ok := iff.Cond.(*ssa.BinOp)
			if !ok || bo.Op != token.NEQ {
				continue
			}
			ex, ok := bo.X.(*ssa.Extract)
			if !ok || ex.Index != 1 {
				continue
			}
			if c, ok := ex.Tuple.(*ssa.Call); ok {
				if f, _ := c.Call.Value.(*ssa.Function); f != nil && f.Name() == "CompileFile" && okBranch == nil {
					okBranch = b.Succs[1]
				}
			}
		}
	}
	for _, b := range fn.Blocks {
		for _, in := range b.Instrs {
			if call, ok := in.(*ssa.Call); ok {
				if f, _ := call.Call.Value.(*ssa.Function); f != nil && f.Name() == "GenerateFile" {
					if okBranch == nil || !okBranch.Dominates(b) {
						okGen = false
					}
				}
			}
		}
	}
	if nComp == 1 && nGen == 2 && okGen {
		return true, "one newCompiler, one generator constructor per mode, both used directly, OutputPath is the parameter, GenerateFile only after CompileFile returned no error"
	}
	return false, fmt.Sprintf("newCompiler calls=%d, generator constructors=%d, direct use=%v", nComp, nGen, okGen)
}

// checkSourceMapFrame (C20): every read of the sourceMapped flag in the
// generator only guards emission through printLineDir / printMagic / the
// //line header / resetMagicTokens, i.e. comment text.
func checkSourceMapFrame(sink *vc.Sink, lr *vc.LoadResult, fns []*ssa.Function, pos func(ssa.Instruction) string) {
	allowed := map[string]bool{"(*exprPrinter).printLineDir": true, "(*generator).GenerateFile": true, "(*generator).printMagic": true, "(*generator).generateFlow": true, "(*generator).generateParallel": true, "(*generator).funcMap": true}
	n := 0
	for _, fn := range fns {
		for _, b := range fn.Blocks {
			for _, in := range b.Instrs {
				fa, ok := in.(*ssa.FieldAddr)
				if !ok || ssaStructField(fa) != "sourceMapped" {
					continue
				}
				for _, r := range *fa.Referrers() {
					ld, ok := r.(*ssa.UnOp)
					if !ok || ld.Op != token.MUL {
						continue
					}
					n++
					name := relName(fn)
					short := name[strings.Index(name, ".")+1:]
					parent := short
					if i := strings.Index(short, "$"); i >= 0 {
						parent = short[:i]
					}
					sink.Structural(name, "frame", "source-map-flag-read-only-by-comment-emitters", []string{"C20"}, allowed[parent], pos(in))
				}
			}
		}
	}
	sink.Structural("internal", "frame", "source-map-flag-read-only-by-comment-emitters", []string{"C20"}, n > 0, fmt.Sprintf("%d reads of the sourceMapped flag", n))
}

// boundedBuildTag runs the bounded stand-in for tag inversion on the real code.
func boundedBuildTag(sink *vc.Sink, repo string, res *vc.PassResult) {
	src := "/verif/replay/buildtag_bounded_test.go.txt"
	if _, err := os.Stat(src); err != nil {
		return
	}
	dir, err := os.MkdirTemp(scratchBase(), "cffvc-bt.")
	if err != nil {
		return
	}
	defer os.RemoveAll(dir)
	ov := filepath.Join(dir, "ov.json")
	os.WriteFile(ov, []byte(fmt.Sprintf(`{"Replace": {%q: %q}}`, filepath.Join(repo, "internal", "verif_bounded_buildtag_test.go"), src)), 0o644)
	out, err := run(repo, nil, "go", "test", "-overlay", ov, "-vet=off", "-count=1", "-timeout", "300s", "-run", "TestVerifBoundedBuildTag", "-v", "./internal/")
	cases := ""
	var cex []string
	for _, l := range strings.Split(out, "\n") {
		if strings.Contains(l, "VERIF-BOUNDED") {
			cases = strings.TrimSpace(l)
		}
		if strings.Contains(l, "VERIF-COUNTEREXAMPLE") && len(cex) < 3 {
			cex = append(cex, strings.TrimSpace(l))
		}
	}
	ok := err == nil && cases != "" && len(cex) == 0
	text := cases
	if !ok {
		text = strings.Join(cex, " | ")
		if text == "" {
			text = "bounded run failed: " + lastLines(out, 5)
		}
	}
	sink.Structural("internal.writeInvertedCffTag", "bounded", "tag-inversion-flips-cff-for-every-assignment-depth3-3tags", []string{"C16"}, ok, text)
	res.Extra["bounded"] = []string{"C16 tag inversion: exhaustive over constraint expressions of depth <= 3 over {cff,a,b}, 4 line spellings, 8 assignments, executed on the real writeInvertedCffTag (" + cases + "); not counted as proved"}
}

// writtenThrough reports how the value of a re-slice expression is written
// through (following phis, conversions and further re-slices), or "".
func writtenThrough(root ssa.Value) string {
	seen := map[ssa.Value]bool{}
	work := []ssa.Value{root}
	for len(work) > 0 {
		v := work[len(work)-1]
		work = work[:len(work)-1]
		if seen[v] {
			continue
		}
		seen[v] = true
		refs := v.Referrers()
		if refs == nil {
			continue
		}
		for _, r := range *refs {
			switch r := r.(type) {
			case *ssa.Phi:
				work = append(work, r)
			case *ssa.ChangeType:
				work = append(work, r)
			case *ssa.Slice:
				if r.X == v {
					work = append(work, r)
				}
			case *ssa.IndexAddr:
				if r.X != v || r.Referrers() == nil {
					continue
				}
				for _, rr := range *r.Referrers() {
					if st, ok := rr.(*ssa.Store); ok && st.Addr == r {
						return "stored to by index"
					}
				}
			case ssa.CallInstruction:
				c := r.Common()
				if b, ok := c.Value.(*ssa.Builtin); ok && len(c.Args) > 0 && c.Args[0] == v {
					switch b.Name() {
					case "append":
						return "the first argument of append"
					case "copy":
						return "the destination of copy"
					case "clear":
						return "cleared"
					}
				}
			}
		}
	}
	return ""
}

func isGoTypesType(t types.Type) bool {
	n, ok := t.(*types.Named)
	if !ok {
		return false
	}
	o := n.Obj()
	return o.Pkg() != nil && o.Pkg().Path() == "go/types" && o.Name() == "Type"
}

func isNilConst(v ssa.Value) bool {
	c, ok := v.(*ssa.Const)
	return ok && c.Value == nil
}
