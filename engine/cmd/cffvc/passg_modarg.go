package main

import (
	"go/token"
	"strings"

	"cffvc/vc"

	"golang.org/x/tools/go/ssa"
)

// Modifier mode replaces every option call of a directive (cff.Params,
// cff.Results, cff.Concurrency, cff.Task) by a generated helper
// `_cff<Option><file>_<line>_<col>(args...)` that returns a closure over its
// arguments; the implementation function reads the arguments back by calling
// the closures. Role modflow-arg: the helper returns a closure that returns
// exactly the helper's arguments, unchanged, in order - so the implementation
// sees the values the directive was given, as base-mode code does.

func (g *gpass) isModArgHelper(fn *ssa.Function) bool {
	if fn.Parent() != nil || fn.Synthetic != "" || !strings.HasPrefix(fn.Name(), "_cff") || len(fn.Blocks) == 0 {
		return false
	}
	// not an implementation function (those call Wait)
	for _, b := range fn.Blocks {
		for _, in := range b.Instrs {
			if c, ok := in.(*ssa.Call); ok && isSchedMethod(&c.Call, "Wait") {
				return false
			}
		}
	}
	return true
}

func (g *gpass) verifyModArg(fn *ssa.Function, name string) {
	role := g.roles["modflow-arg"]
	if role == nil {
		g.res.Ungenerated[name] = "no role contract modflow-arg"
		return
	}
	g.curArg = fn
	defer func() { g.curArg = nil }()
	spec := &vc.FuncSpec{Name: "role:modflow-arg", MayPanic: true, Loops: map[int]*vc.LoopSpec{}, Sites: map[string]*vc.SiteSpec{}, Options: map[string]string{}}
	before := len(g.x.Sink.Instances)
	if err := g.x.VerifyFunction(fn, spec); err != nil {
		g.res.Ungenerated[name] = err.Error()
		g.x.Sink.Instances = g.x.Sink.Instances[:before]
	}
}

func (g *gpass) argExit(s *vc.State, f *vc.Frame, kind string, results []vc.Value) {
	role := g.roles["modflow-arg"]
	env := s.NewEnv(f)
	env.Bound["panics"] = vc.S(vc.BoolLit(kind == "panic"))
	ok := vc.False
	if kind != "panic" && len(results) == 1 {
		if fv, isF := results[0].(*vc.FuncVal); isF {
			ok = closureReturnsEntryArgs(s, f, fv)
		}
	}
	env.Bound["closureReturnsArgs"] = vc.S(ok)
	for _, c := range role.Ensures {
		t, err := env.EvalBool(c.Expr)
		if err != nil {
			g.res.Ungenerated["role:modflow-arg"] = "ensures " + c.Label + ": " + err.Error()
			return
		}
		cl := *c
		cl.Func = "role:modflow-arg"
		s.Trace = append(s.Trace, "instance "+f.Fn.Name())
		g.x.Sink.Assert(s, f, &cl, t, nil)
	}
}

// closureReturnsEntryArgs: the closure's body is a single return of the loads
// of its captured variables, one per parameter of the helper and in their
// order, and each captured variable holds, at the helper's exit, the value the
// helper was called with.
func closureReturnsEntryArgs(s *vc.State, f *vc.Frame, fv *vc.FuncVal) *vc.Term {
	cf := fv.Fn
	if len(cf.Blocks) != 1 || len(cf.Params) != 0 {
		return vc.False
	}
	var ret *ssa.Return
	for _, in := range cf.Blocks[0].Instrs {
		switch in := in.(type) {
		case *ssa.Return:
			ret = in
		case *ssa.UnOp:
			if in.Op != token.MUL {
				return vc.False
			}
		case *ssa.DebugRef:
		default:
			return vc.False
		}
	}
	if ret == nil || len(ret.Results) != len(f.EntryArgs) {
		return vc.False
	}
	conj := vc.True
	for j, r := range ret.Results {
		ld, ok := r.(*ssa.UnOp)
		if !ok {
			return vc.False
		}
		fvar, ok := ld.X.(*ssa.FreeVar)
		if !ok {
			return vc.False
		}
		idx := -1
		for i, v := range cf.FreeVars {
			if v == fvar {
				idx = i
			}
		}
		if idx < 0 || idx >= len(fv.Free) {
			return vc.False
		}
		p, ok := fv.Free[idx].(*vc.PtrVal)
		if !ok {
			return vc.False
		}
		conj = vc.And(conj, s.ValueEq(s.Load(p), f.EntryArgs[j]))
	}
	return conj
}
