package main

import (
	"fmt"
	"go/ast"
	"go/token"
	"go/types"
	"regexp"
	"sort"
	"strings"

	"cffvc/vc"

	"golang.org/x/tools/go/packages"
	"golang.org/x/tools/go/ssa"
)

// Wrapper-level verification: the generated body of one directive.
//
// The scheduler API is assumed with the contract proved in pass S:
//   E1  a job's Run is invoked at most once, only after every job in its
//       Dependencies returned nil, with the ctx given to Enqueue
//   E2  Wait returns nil only if every enqueued job's Run was invoked once and
//       returned nil, all happening-before the return
//   E3  otherwise Wait returns a job's error or the context's error

type wrapCtx struct {
	w          *wrapper
	sequential bool
	userLits   map[*ssa.Function]bool
	hoisted    map[*ssa.Alloc]bool
	closureOf  map[*ssa.Function]*jobClosure
	reads      map[*ssa.Function]map[string]bool
	writes     map[*ssa.Function]map[string]bool
	hoistedVals map[ssa.Value]bool
	hoistedValName map[ssa.Value]string
	hoistedTypes map[string]types.Type
	static     map[string]bool // statically computed flags
	notes      []string
	df         *directiveFacts
}

var sharedCell = regexp.MustCompile(`^(v\d+|p\d+|p\d+PanicRecover|p\d+PanicStacktrace)$`)

func (g *gpass) verifyWrapper(w *wrapper) {
	role := g.roles[w.kind+"-wrapper"]
	if role == nil {
		g.res.Ungenerated[w.name] = "no role contract " + w.kind + "-wrapper"
		return
	}
	wc := &wrapCtx{w: w, userLits: map[*ssa.Function]bool{}, hoisted: map[*ssa.Alloc]bool{}, closureOf: map[*ssa.Function]*jobClosure{},
		reads: map[*ssa.Function]map[string]bool{}, writes: map[*ssa.Function]map[string]bool{}, static: map[string]bool{}}
	for _, jc := range w.closures {
		if jc.fn != nil {
			wc.closureOf[jc.fn] = jc
		}
	}
	wc.analyse()
	g.curWrap = wc
	defer func() { g.curWrap = nil }()
	spec := &vc.FuncSpec{Name: "role:" + w.kind + "-wrapper", MayPanic: true, Loops: map[int]*vc.LoopSpec{}, Sites: map[string]*vc.SiteSpec{}, Options: map[string]string{}}
	before := len(g.x.Sink.Instances)
	if err := g.x.VerifyFunction(w.fn, spec); err != nil {
		g.res.Ungenerated[w.name] = err.Error()
		g.x.Sink.Instances = g.x.Sink.Instances[:before]
	}
}

// analyse computes the static facts of a wrapper.
func (wc *wrapCtx) analyse() {
	fn := wc.w.fn
	storesTo := map[*ssa.Alloc]int{}
	wc.hoistedVals = map[ssa.Value]bool{}
	wc.hoistedValName = map[ssa.Value]string{}
	wc.hoistedTypes = map[string]types.Type{}
	for _, b := range fn.Blocks {
		for _, in := range b.Instrs {
			switch in := in.(type) {
			case *ssa.DebugRef:
				if id, ok := in.Expr.(*ast.Ident); ok && hoistedName.MatchString(id.Name) {
					if !in.IsAddr {
						wc.hoistedVals[in.X] = true
						wc.hoistedValName[in.X] = id.Name
						wc.hoistedTypes[id.Name] = in.X.Type()
					} else if pt, ok := in.X.Type().Underlying().(*types.Pointer); ok {
						wc.hoistedTypes[id.Name] = pt.Elem()
					}
				}
			case *ssa.Alloc:
				if hoistedName.MatchString(in.Comment) {
					wc.hoisted[in] = true
				}
			case *ssa.Store:
				if al, ok := in.Addr.(*ssa.Alloc); ok && hoistedName.MatchString(al.Comment) {
					storesTo[al]++
					switch v := in.Val.(type) {
					case *ssa.MakeClosure:
						wc.userLits[v.Fn.(*ssa.Function)] = true
					case *ssa.Function:
						wc.userLits[v] = true
					}
				}
			case *ssa.MakeClosure:
				cf := in.Fn.(*ssa.Function)
				bind := map[*ssa.FreeVar]string{}
				for i, bv := range in.Bindings {
					if al, ok := bv.(*ssa.Alloc); ok {
						bind[cf.FreeVars[i]] = al.Comment
					}
				}
				r, w := map[string]bool{}, map[string]bool{}
				rwOf(cf, bind, r, w)
				wc.reads[cf], wc.writes[cf] = r, w
			}
		}
	}
	once := true
	for al := range wc.hoisted {
		if storesTo[al] == 0 {
			// a composite literal is built in place: field / element stores into the cell
			for _, r := range *al.Referrers() {
				switch r.(type) {
				case *ssa.FieldAddr, *ssa.IndexAddr:
					storesTo[al] = 1
				}
			}
		}
		if storesTo[al] != 1 {
			once = false
			wc.notes = append(wc.notes, fmt.Sprintf("hoisted cell %s assigned %d times", al.Comment, storesTo[al]))
		}
	}
	// no closure of the generated code stores to a hoisted cell
	for cf, w := range wc.writes {
		if wc.userLits[cf] {
			continue
		}
		for n := range w {
			if hoistedName.MatchString(n) {
				once = false
				wc.notes = append(wc.notes, "closure "+cf.Name()+" assigns hoisted cell "+n)
			}
		}
	}
	wc.static["hoistedAssignedOnce"] = once
	// single writer of shared cells among generated closures; cells
	// initialised by the wrapper itself (Params) have no closure writer
	writers := map[string][]*ssa.Function{}
	for cf, w := range wc.writes {
		if wc.userLits[cf] {
			continue
		}
		for n := range w {
			if sharedCell.MatchString(n) {
				writers[n] = append(writers[n], cf)
			}
		}
	}
	single := true
	wrapperInit := map[string]bool{}
	for _, b := range fn.Blocks {
		for _, in := range b.Instrs {
			if st, ok := in.(*ssa.Store); ok {
				if al, ok := st.Addr.(*ssa.Alloc); ok && sharedCell.MatchString(al.Comment) {
					wrapperInit[al.Comment] = true
				}
			}
		}
	}
	for n, ws := range writers {
		if len(ws) > 1 || wrapperInit[n] {
			single = false
			wc.notes = append(wc.notes, "cell "+n+" has more than one writer")
		}
	}
	wc.static["singleWriter"] = single
	// cell types pairwise distinct among vN cells
	var vts []types.Type
	distinct := true
	for _, b := range fn.Blocks {
		for _, in := range b.Instrs {
			if al, ok := in.(*ssa.Alloc); ok && vCell.MatchString(al.Comment) {
				et := al.Type().Underlying().(*types.Pointer).Elem()
				for _, t := range vts {
					if types.Identical(t, et) {
						distinct = false
						wc.notes = append(wc.notes, "two value cells of type "+et.String())
					}
				}
				vts = append(vts, et)
			}
		}
	}
	wc.static["cellTypesDistinct"] = distinct
	// the ran flag of every task struct is an atomic.Bool
	ranAtomic := true
	for _, b := range fn.Blocks {
		for _, in := range b.Instrs {
			al, ok := in.(*ssa.Alloc)
			if !ok {
				continue
			}
			st, ok := al.Type().Underlying().(*types.Pointer).Elem().Underlying().(*types.Struct)
			if !ok {
				continue
			}
			for i := 0; i < st.NumFields(); i++ {
				if st.Field(i).Name() == "ran" && types.Unalias(st.Field(i).Type()).String() != "sync/atomic.Bool" {
					ranAtomic = false
					wc.notes = append(wc.notes, "ran flag has type "+st.Field(i).Type().String())
				}
			}
		}
	}
	wc.static["ranIsAtomic"] = ranAtomic
}

// rwOf collects the wrapper cells a closure (and its nested literals) loads
// and stores, through its free variables.
func rwOf(fn *ssa.Function, bind map[*ssa.FreeVar]string, r, w map[string]bool) {
	for _, b := range fn.Blocks {
		for _, in := range b.Instrs {
			switch in := in.(type) {
			case *ssa.UnOp:
				if in.Op == token.MUL {
					if fv, ok := in.X.(*ssa.FreeVar); ok {
						if n, ok := bind[fv]; ok {
							r[n] = true
						}
					}
				}
			case *ssa.Store:
				if fv, ok := in.Addr.(*ssa.FreeVar); ok {
					if n, ok := bind[fv]; ok {
						w[n] = true
					}
				}
			case *ssa.MakeClosure:
				cf := in.Fn.(*ssa.Function)
				nb := map[*ssa.FreeVar]string{}
				for i, bv := range in.Bindings {
					if pfv, ok := bv.(*ssa.FreeVar); ok {
						if n, ok := bind[pfv]; ok {
							nb[cf.FreeVars[i]] = n
						}
					}
				}
				rwOf(cf, nb, r, w)
			}
		}
	}
}

type enqRec struct {
	id     int64
	fn     *ssa.Function
	deps   []int64
	depsOK bool // dependencies are concrete job ids
	ctx    vc.Value
	inLoop bool
}

func (g *gpass) registerWrapperModels() {
	x := g.x
	x.Models["go.uber.org/cff.NewScheduler"] = func(s *vc.State, c *vc.CallCtx) (vc.Value, bool) {
		if g.curWrap == nil {
			return nil, false
		}
		id := vc.IntLit(x.NewObjectID())
		rt := c.Common.Signature().Results().At(0).Type().Underlying().(*types.Pointer).Elem()
		s.Events = append(s.Events, vc.Event{Kind: "newscheduler", Name: "NewScheduler", Args: c.Args, Instr: c.Instr})
		return &vc.PtrVal{Ref: id, Base: rt, Typ: rt}, true
	}
	x.Models["(*go.uber.org/cff/scheduler.Scheduler).Enqueue"] = func(s *vc.State, c *vc.CallCtx) (vc.Value, bool) {
		if g.curWrap == nil {
			return nil, false
		}
		id := vc.IntLit(x.NewObjectID())
		rt := c.Common.Signature().Results().At(0).Type().Underlying().(*types.Pointer).Elem()
		p := &vc.PtrVal{Ref: id, Base: rt, Typ: rt}
		s.Events = append(s.Events, vc.Event{Kind: "enqueue", Name: "Enqueue", Args: c.Args, Rets: []vc.Value{p}, Instr: c.Instr})
		return p, true
	}
	x.Models["(*go.uber.org/cff/scheduler.Scheduler).Wait"] = func(s *vc.State, c *vc.CallCtx) (vc.Value, bool) {
		if g.curWrap == nil {
			return nil, false
		}
		args := c.Args
		instr := c.Instr
		mk := func(isNil bool) func(st *vc.State) vc.Value {
			return func(st *vc.State) vc.Value {
				// jobs ran in between: every shared cell may have changed
				st.HavocCells(func(name string) bool {
					return sharedCell.MatchString(name)
				})
				st.HavocHeap("atomic")
				var e *vc.Term
				if isNil {
					e = vc.IntLit(0)
				} else {
					e = x.Ctx.Fresh("waiterr", vc.SInt)
					st.Assume(vc.Gt(e, vc.IntLit(0)))
				}
				st.Events = append(st.Events, vc.Event{Kind: "wait", Name: "Wait", Args: args, Rets: []vc.Value{vc.S(e)}, Instr: instr})
				return vc.S(e)
			}
		}
		c.Alts = []func(*vc.State) vc.Value{mk(true), mk(false)}
		return nil, true
	}
	x.OnInstr = func(s *vc.State, f *vc.Frame, in ssa.Instruction) {
		wc := g.curWrap
		if wc == nil || f.Fn != wc.w.fn {
			return
		}
		if dr, ok := in.(*ssa.DebugRef); ok {
			// the defining occurrence of a hoisted variable: _L_C := <user expression>
			if id, ok := dr.Expr.(*ast.Ident); ok && hoistedName.MatchString(id.Name) {
				if obj := dr.Object(); obj != nil && obj.Pos() == id.Pos() {
					s.Events = append(s.Events, vc.Event{Kind: "hoist", Name: id.Name, Instr: in})
				}
			}
			return
		}
		st, ok := in.(*ssa.Store)
		if !ok {
			return
		}
		// store through a pointer held by a hoisted variable: a Results target
		if name := wc.hoistedPtrName(st.Addr); name != "" {
			var src string
			if vl, ok := st.Val.(*ssa.UnOp); ok && vl.Op == token.MUL {
				if va, ok := vl.X.(*ssa.Alloc); ok {
					src = va.Comment
				}
			}
			s.Events = append(s.Events, vc.Event{Kind: "result-store", Name: name + "<-" + src, Instr: in})
		}
	}
	x.OnLoopBack = func(s *vc.State, f *vc.Frame, lp *vc.Loop) {
		if g.curWrap != nil {
			g.wrapperLoopBack(s, f, lp)
		}
	}
}

// pathFacts reconstructs the directive's structure from the events of a path.
type pathFacts struct {
	enqs        []enqRec
	hoists      []string
	hoistsLate  bool
	waitSeen    bool
	waitNil     bool
	waitErr     *vc.Term
	waitCtx     vc.Value
	resultStore []string
	storeBeforeWait bool
	schedArgs   []vc.Value
}

func (g *gpass) facts(s *vc.State) *pathFacts {
	pf := &pathFacts{waitErr: vc.IntLit(0)}
	generatedStarted := false
	inLoop := false
	for _, ev := range s.Events {
		switch ev.Kind {
		case "hoist":
			pf.hoists = append(pf.hoists, ev.Name)
			if generatedStarted {
				pf.hoistsLate = true
			}
		case "loop-havoc":
			inLoop = true
		case "newscheduler":
			generatedStarted = true
			pf.schedArgs = ev.Args
		case "enqueue":
			generatedStarted = true
			r := enqRec{inLoop: inLoop, depsOK: true}
			if p, ok := ev.Rets[0].(*vc.PtrVal); ok {
				r.id, _ = p.Ref.IntVal()
			}
			r.ctx = ev.Args[1]
			if job, ok := ev.Args[2].(*vc.StructVal); ok {
				if fv, ok := job.Fields[0].(*vc.FuncVal); ok {
					r.fn = fv.Fn
				}
				if sl, ok := job.Fields[1].(*vc.SliceVal); ok {
					sl = s.SliceSnapshot(sl)
					n, isConst := sl.Len.IntVal()
					if !isConst {
						r.depsOK = false
					} else {
						for i := int64(0); i < n; i++ {
							d, ok := vc.Select(sl.Arr, vc.IntLit(i)).IntVal()
							if !ok {
								r.depsOK = false
								break
							}
							r.deps = append(r.deps, d)
						}
					}
				}
			}
			pf.enqs = append(pf.enqs, r)
		case "wait":
			pf.waitSeen = true
			pf.waitErr = ev.Rets[0].(*vc.Scalar).T
			n, isConst := pf.waitErr.IntVal()
			pf.waitNil = isConst && n == 0
			pf.waitCtx = ev.Args[1]
		case "result-store":
			pf.resultStore = append(pf.resultStore, ev.Name)
			if !pf.waitSeen {
				pf.storeBeforeWait = true
			}
		case "call":
			if strings.HasPrefix(ev.Name, "go.uber.org/cff.") || strings.HasPrefix(ev.Name, "invoke go.uber.org/cff.") {
				generatedStarted = true
			}
		}
	}
	return pf
}

func (g *gpass) wrapperExit(s *vc.State, f *vc.Frame, kind string, results []vc.Value) {
	wc := g.curWrap
	w := wc.w
	role := g.roles[w.kind+"-wrapper"]
	x := g.x
	pf := g.facts(s)
	env := s.NewEnv(f)
	B := func(name string, t *vc.Term) { env.Bound[name] = vc.S(t) }
	B("panics", vc.BoolLit(kind == "panic"))
	if len(results) > 0 {
		env.Bound["result"] = results[0]
	} else {
		B("result", vc.IntLit(0))
	}
	for k, v := range wc.static {
		B(k, vc.BoolLit(v))
	}
	// hoisting order
	ordered := true
	for i := 1; i < len(pf.hoists); i++ {
		if !hoistLess(pf.hoists[i-1], pf.hoists[i]) {
			ordered = false
		}
	}
	B("hoistOrdered", vc.BoolLit(ordered))
	B("hoistBeforeGenerated", vc.BoolLit(!pf.hoistsLate))
	B("waitCalled", vc.BoolLit(pf.waitSeen))
	B("waitNil", vc.BoolLit(pf.waitNil))
	B("waitErr", pf.waitErr)
	B("nResultStores", vc.IntLit(int64(len(pf.resultStore))))
	B("resultStoreBeforeWait", vc.BoolLit(pf.storeBeforeWait))
	// Results stores: pointer cell _L_C of type *T receives the vN cell of type T, each target once
	storesOK := true
	seenTarget := map[string]bool{}
	for _, rs := range pf.resultStore {
		parts := strings.SplitN(rs, "<-", 2)
		tgt, src := parts[0], parts[1]
		if seenTarget[tgt] || !vCell.MatchString(src) {
			storesOK = false
			continue
		}
		seenTarget[tgt] = true
		var tt, st types.Type
		if ht, ok := wc.hoistedTypes[tgt]; ok {
			if pt, ok := ht.Underlying().(*types.Pointer); ok {
				tt = pt.Elem()
			}
		}
		for _, b := range w.fn.Blocks {
			for _, in := range b.Instrs {
				if al, ok := in.(*ssa.Alloc); ok && al.Comment == src {
					st = al.Type().Underlying().(*types.Pointer).Elem()
				}
			}
		}
		if tt == nil || st == nil || !types.Identical(tt, st) {
			storesOK = false
		}
	}
	B("resultStoresFromCellOfPointeeType", vc.BoolLit(storesOK))
	// every Results pointer cell (hoisted cell of pointer type that is stored through anywhere in the wrapper) is written on the nil path
	nTargets := 0
	for _, b := range w.fn.Blocks {
		for _, in := range b.Instrs {
			if st, ok := in.(*ssa.Store); ok && wc.hoistedPtrName(st.Addr) != "" {
				nTargets++
			}
		}
	}
	B("nResultTargets", vc.IntLit(int64(nTargets)))

	// contexts
	ctxOK := vc.True
	ctxVal := allocVal(s, f, "ctx")
	if ctxVal == nil {
		ctxOK = vc.False
	} else {
		for _, e := range pf.enqs {
			ctxOK = vc.And(ctxOK, s.ValueEq(e.ctx, ctxVal))
		}
		if pf.waitCtx != nil {
			ctxOK = vc.And(ctxOK, s.ValueEq(pf.waitCtx, ctxVal))
		}
	}
	B("directiveCtxEverywhere", ctxOK)

	// dependency cover: every reader of a shared cell transitively depends on its writer
	cover := true
	allConcrete := true
	jobOf := map[*ssa.Function]int64{}
	depsOf := map[int64][]int64{}
	order := map[int64]int{}
	for i, e := range pf.enqs {
		if e.fn != nil {
			jobOf[e.fn] = e.id
		}
		depsOf[e.id] = e.deps
		order[e.id] = i
		if !e.depsOK && !e.inLoop {
			allConcrete = false
		}
		for _, d := range e.deps {
			if oi, ok := order[d]; !ok || oi >= i {
				if !e.inLoop {
					cover = false
					wc.notes = append(wc.notes, "dependency on a job not enqueued earlier")
				}
			}
		}
	}
	trans := func(j int64) map[int64]bool {
		seen := map[int64]bool{}
		stack := []int64{j}
		for len(stack) > 0 {
			n := stack[len(stack)-1]
			stack = stack[:len(stack)-1]
			for _, d := range depsOf[n] {
				if !seen[d] {
					seen[d] = true
					stack = append(stack, d)
				}
			}
		}
		return seen
	}
	writerOf := map[string]*ssa.Function{}
	for cf, ws := range wc.writes {
		if wc.userLits[cf] || wc.closureOf[cf] == nil {
			continue
		}
		for n := range ws {
			if sharedCell.MatchString(n) {
				writerOf[n] = cf
			}
		}
	}
	exactDeps := true
	for _, e := range pf.enqs {
		if e.fn == nil || e.inLoop {
			continue
		}
		td := trans(e.id)
		need := map[int64]bool{}
		for n := range wc.reads[e.fn] {
			wf := writerOf[n]
			if wf == nil || wf == e.fn {
				continue
			}
			wj, ok := jobOf[wf]
			if !ok || !td[wj] {
				cover = false
				wc.notes = append(wc.notes, fmt.Sprintf("%s reads %s but does not depend on its writer", e.fn.Name(), n))
			}
			need[wj] = true
		}
		// no dependency beyond the writers of what it reads ("as soon as its own inputs are available")
		for _, d := range e.deps {
			if !need[d] {
				exactDeps = false
				wc.notes = append(wc.notes, fmt.Sprintf("%s depends on a job that provides none of its inputs", e.fn.Name()))
			}
		}
	}
	B("depsCoverReaders", vc.BoolLit(cover && allConcrete))
	B("depsOnlyProviders", vc.BoolLit(exactDeps))

	// every job closure of the wrapper is enqueued exactly once on this path (outside loops)
	count := map[*ssa.Function]int{}
	for _, e := range pf.enqs {
		if e.fn != nil {
			count[e.fn]++
		}
	}
	allOnce := true
	for _, jc := range w.closures {
		if jc.fn == nil || inAnyLoop(x, w.fn, jc.fn) {
			continue
		}
		if count[jc.fn] != 1 && pf.waitSeen {
			allOnce = false
			wc.notes = append(wc.notes, "closure "+jc.fn.Name()+" enqueued "+fmt.Sprint(count[jc.fn])+" times")
		}
	}
	B("everyJobEnqueuedOnce", vc.BoolLit(allOnce))

	// the source directive as ground truth
	df := readDirective(g.testsDir, w.fn)
	if !df.found {
		wc.notes = append(wc.notes, "directive: "+df.why)
	}
	got := map[string]bool{}
	for _, h := range pf.hoists {
		got[h] = true
	}
	sameSet := df.found && len(got) == len(df.leaves)
	for n := range df.leaves {
		if !got[n] {
			sameSet = false
			wc.notes = append(wc.notes, "argument at "+n+" is not hoisted")
		}
	}
	for n := range got {
		if !df.leaves[n] && df.found {
			wc.notes = append(wc.notes, "hoisted "+n+" is not a directive argument")
		}
	}
	B("hoistedExactlyTheArguments", vc.BoolLit(sameSet))
	rc := map[string]int{}
	for _, jc := range w.closures {
		rc[jc.role]++
	}
	jobsMatch := df.found && rc["flow-task"]+rc["parallel-task"] == df.nTasks && rc["flow-predicate"] == df.nPreds &&
		rc["slice-elem"] == df.nSlice && rc["map-elem"] == df.nMap && rc["end-hook"] == df.nEnd && rc["unrecognised"] == 0
	if !jobsMatch && df.found {
		wc.notes = append(wc.notes, fmt.Sprintf("directive has %d tasks %d predicates %d slices %d maps %d end hooks; generated %v", df.nTasks, df.nPreds, df.nSlice, df.nMap, df.nEnd, rc))
	}
	B("jobsMatchDirective", vc.BoolLit(jobsMatch))
	B("resultsMatchDirective", vc.BoolLit(df.found && nTargets == df.nResults))
	// no user function is invoked on the calling goroutine
	userOnCaller := 0
	for _, ev := range s.Events {
		if ev.Kind == "call" || ev.Kind == "call-panicked" {
			if call, ok := ev.Instr.(*ssa.Call); ok {
				if _, isUser := hoistedCallee(&call.Call); isUser {
					userOnCaller++
				}
			}
		}
	}
	B("noUserFunctionOnCaller", vc.BoolLit(userOnCaller == 0))

	// C15: identifiers in hoisted user expressions resolve outside the wrapper literal
	capOK, capWhy := g.noCapture(w)
	if !capOK {
		wc.notes = append(wc.notes, capWhy)
	}
	B("userExpressionsResolveOutsideTheWrapper", vc.BoolLit(capOK))

	// scheduler params come from hoisted expressions or are absent
	B("schedParamsOK", vc.BoolLit(g.schedParamsOK(wc)))

	// tasks slice holds exactly the instrumentable task structs
	B("tasksListComplete", vc.BoolLit(g.tasksComplete(s, f, wc, pf)))

	evs := emitterEvents(s)
	x.SpecFuncs["events"] = func(e *vc.Env, a []vc.Value) vc.Value {
		want := strings.TrimSpace(specString(e, a[0]))
		var got []string
		for _, ev := range evs {
			got = append(got, ev.method)
		}
		return vc.S(vc.BoolLit(strings.Join(got, ",") == want))
	}
	x.SpecFuncs["evarg"] = func(e *vc.Env, a []vc.Value) vc.Value {
		m := specString(e, a[0])
		idx, _ := a[1].(*vc.Scalar).T.IntVal()
		for _, ev := range evs {
			if ev.method == m && int(idx) < len(ev.args) {
				return ev.args[idx]
			}
		}
		return vc.S(vc.IntLit(-1))
	}
	for _, c := range role.Ensures {
		t, err := env.EvalBool(c.Expr)
		if err != nil {
			g.res.Ungenerated["role:"+w.kind+"-wrapper"] = "ensures " + c.Label + ": " + err.Error()
			return
		}
		cl := *c
		cl.Func = "role:" + w.kind + "-wrapper"
		s.Trace = append(s.Trace, "instance "+w.name+" notes: "+strings.Join(wc.notes, "; "))
		x.Sink.Assert(s, f, &cl, t, nil)
	}
}

func inAnyLoop(x *vc.Exec, wfn *ssa.Function, cf *ssa.Function) bool {
	li := x.Loops(wfn)
	for _, b := range wfn.Blocks {
		for _, in := range b.Instrs {
			if mc, ok := in.(*ssa.MakeClosure); ok && mc.Fn == cf {
				for _, lp := range li.Loops {
					if lp.Blocks[b] {
						return true
					}
				}
			}
		}
	}
	return false
}

// schedParamsOK: each field of SchedulerParams stored by the wrapper is the
// load of a hoisted cell (Concurrency, ContinueOnError) or the scheduler
// emitter obtained from emitter.SchedulerInit.
// directiveOf: the source directive of the wrapper (parsed once per wrapper).
func (g *gpass) directiveOf(wc *wrapCtx) *directiveFacts {
	if wc.df == nil {
		wc.df = readDirective(g.testsDir, wc.w.fn)
	}
	return wc.df
}

func (g *gpass) schedParamsOK(wc *wrapCtx) bool {
	ok := true
	for _, b := range wc.w.fn.Blocks {
		for _, in := range b.Instrs {
			st, isStore := in.(*ssa.Store)
			if !isStore {
				continue
			}
			fa, isFA := st.Addr.(*ssa.FieldAddr)
			if !isFA {
				continue
			}
			pt, _ := fa.X.Type().Underlying().(*types.Pointer)
			if pt == nil || !strings.HasSuffix(pt.Elem().String(), "cff.SchedulerParams") {
				continue
			}
			name := pt.Elem().Underlying().(*types.Struct).Field(fa.Field).Name()
			switch name {
			case "Concurrency", "ContinueOnError":
				// the field is set iff the directive has the option, and from that option's hoisted argument
				want := ""
				if df := g.directiveOf(wc); df != nil && df.found {
					want = df.concurrencyLeaf
					if name == "ContinueOnError" {
						want = df.continueLeaf
					}
					if want == "" {
						ok = false
						wc.notes = append(wc.notes, "SchedulerParams."+name+" is set although the directive has no such option")
						continue
					}
				}
				if _, isConst := st.Val.(*ssa.Const); isConst {
					continue // a hoisted constant expression, folded by SSA construction
				}
				if wc.hoistedVals[st.Val] {
					if want != "" && wc.hoistedValName[st.Val] != want {
						ok = false
					}
					continue
				}
				ld, isLd := st.Val.(*ssa.UnOp)
				if !isLd {
					ok = false
					continue
				}
				al, isAl := ld.X.(*ssa.Alloc)
				if !isAl || !wc.hoisted[al] || (want != "" && al.Comment != want) {
					ok = false
				}
			case "Emitter":
				c, isCall := st.Val.(*ssa.Call)
				if !isCall || !c.Call.IsInvoke() || c.Call.Method.Name() != "SchedulerInit" {
					ok = false
				}
			}
		}
	}
	return ok
}

// tasksComplete: at Wait, the tasks slice lists exactly the task structs of
// the flow-task / parallel-task closures, each once.
func (g *gpass) tasksComplete(s *vc.State, f *vc.Frame, wc *wrapCtx, pf *pathFacts) bool {
	sl, ok := allocVal(s, f, "tasks").(*vc.SliceVal)
	if !ok {
		return false
	}
	sl = s.SliceSnapshot(sl)
	n, isConst := sl.Len.IntVal()
	if !isConst {
		return false
	}
	want := 0
	for _, jc := range wc.w.closures {
		if jc.role == "flow-task" || jc.role == "parallel-task" {
			want++
		}
	}
	seen := map[int64]bool{}
	for i := int64(0); i < n; i++ {
		id, ok := vc.Select(sl.Arr, vc.IntLit(i)).IntVal()
		if !ok || seen[id] {
			return false
		}
		seen[id] = true
	}
	return int(n) == want
}

// wrapperLoopBack checks the per-iteration obligations of the loops of a
// wrapper: the skipped-task sweep and the slice / map element loops.
func (g *gpass) wrapperLoopBack(s *vc.State, f *vc.Frame, lp *vc.Loop) {
	wc := g.curWrap
	x := g.x
	// events of this iteration: after the last loop-havoc marker
	start := 0
	for i, ev := range s.Events {
		if ev.Kind == "loop-havoc" {
			start = i + 1
		}
	}
	iter := s.Events[start:]
	var roleName string
	env := s.NewEnv(f)
	B := func(name string, t *vc.Term) { env.Bound[name] = vc.S(t) }
	if f.Fn != wc.w.fn {
		// deferred sweep literal
		roleName = "sweep-iteration"
		nSkipped := 0
		var skArgs []vc.Value
		other := 0
		for _, ev := range iter {
			if ev.Kind == "call" && strings.HasSuffix(ev.Name, ".TaskSkipped") {
				nSkipped++
				skArgs = ev.Args
			} else if ev.Kind == "call" && strings.HasPrefix(ev.Name, "invoke ") {
				other++
			}
		}
		B("nSkipped", vc.IntLit(int64(nSkipped)))
		B("nOtherEmits", vc.IntLit(int64(other)))
		// the task of this iteration and its ran flag
		ran := vc.False
		emitterOK := vc.True
		errOK := vc.True
		if tv, ok := f.Vars["t"]; ok {
			if tp, ok := tv.(*vc.PtrVal); ok && tp.Ref != nil {
				ran = vc.Select(heapOr(s.Heap, "atomic.Bool.v"), tp.Ref)
				if nSkipped == 1 {
					st := tp.Typ.Underlying().(*types.Struct)
					for i := 0; i < st.NumFields(); i++ {
						if st.Field(i).Name() == "emitter" {
							np := *tp
							np.Path = []vc.PathElem{{Field: i}}
							np.Typ = st.Field(i).Type()
							emitterOK = s.ValueEq(skArgs[0], s.Load(&np))
						}
					}
					resName := "err"
					if rs := wc.w.fn.Signature.Results(); rs.Len() == 1 && rs.At(0).Name() != "" {
						resName = rs.At(0).Name()
					}
					if ev := freeVal(s, f, resName); ev != nil {
						errOK = s.ValueEq(skArgs[2], ev)
					} else {
						errOK = vc.False
					}
				}
			}
		}
		B("ran", ran)
		B("skippedOnThisTasksEmitter", emitterOK)
		B("skippedCarriesDirectiveError", errOK)
	} else {
		roleName = "element-iteration"
		nEnq := 0
		var run *vc.FuncVal
		for _, ev := range iter {
			if ev.Kind == "enqueue" {
				nEnq++
				if job, ok := ev.Args[2].(*vc.StructVal); ok {
					run, _ = job.Fields[0].(*vc.FuncVal)
				}
			}
		}
		B("nEnqueued", vc.IntLit(int64(nEnq)))
		B("perIterationCopies", vc.BoolLit(run != nil && g.perIterationCopies(wc, lp, run.Fn)))
		B("endJobsRecorded", vc.BoolLit(g.endJobsRecorded(wc, lp)))
	}
	role := g.roles[roleName]
	if role == nil {
		return
	}
	for _, c := range role.Ensures {
		t, err := env.EvalBool(c.Expr)
		if err != nil {
			g.res.Ungenerated["role:"+roleName] = "ensures " + c.Label + ": " + err.Error()
			return
		}
		cl := *c
		cl.Func = "role:" + roleName
		s.Trace = append(s.Trace, "instance "+wc.w.name)
		x.Sink.Assert(s, f, &cl, t, nil)
	}
}

// perIterationCopies: the element closure captures cells allocated inside the
// loop body whose single store is the range index / key / element of this
// iteration.
func (g *gpass) perIterationCopies(wc *wrapCtx, lp *vc.Loop, cf *ssa.Function) bool {
	var mc *ssa.MakeClosure
	for b := range lp.Blocks {
		for _, in := range b.Instrs {
			if m, ok := in.(*ssa.MakeClosure); ok && m.Fn == cf {
				mc = m
			}
		}
	}
	if mc == nil {
		return false
	}
	for i, bv := range mc.Bindings {
		name := cf.FreeVars[i].Name()
		if name != "idx" && name != "val" && name != "key" {
			continue
		}
		al, ok := bv.(*ssa.Alloc)
		if !ok || !lp.Blocks[al.Block()] || al.Block() == lp.Header {
			return false // not a per-iteration cell
		}
		var stores []*ssa.Store
		for _, r := range *al.Referrers() {
			if st, ok := r.(*ssa.Store); ok && st.Addr == al {
				stores = append(stores, st)
			}
		}
		if len(stores) != 1 {
			return false
		}
		if !isRangeComponent(stores[0].Val, name, lp) {
			return false
		}
	}
	return true
}

// isRangeComponent: v is the index / key / element produced by the range
// statement of loop lp.
func isRangeComponent(v ssa.Value, name string, lp *vc.Loop) bool {
	switch name {
	case "idx":
		// rangeindex: t = phi+1 compared with len in the header
		if bo, ok := v.(*ssa.BinOp); ok && bo.Op == token.ADD {
			if phi, ok := bo.X.(*ssa.Phi); ok && phi.Comment == "rangeindex" && phi.Block() == lp.Header {
				return true
			}
		}
	case "val":
		if ld, ok := v.(*ssa.UnOp); ok && ld.Op == token.MUL {
			if ia, ok := ld.X.(*ssa.IndexAddr); ok {
				if bo, ok := ia.Index.(*ssa.BinOp); ok {
					if phi, ok := bo.X.(*ssa.Phi); ok && phi.Comment == "rangeindex" && phi.Block() == lp.Header {
						return true
					}
				}
			}
		}
		if ex, ok := v.(*ssa.Extract); ok && ex.Index == 2 {
			if nx, ok := ex.Tuple.(*ssa.Next); ok && lp.Blocks[nx.Block()] {
				return true
			}
		}
	case "key":
		if ex, ok := v.(*ssa.Extract); ok && ex.Index == 1 {
			if nx, ok := ex.Tuple.(*ssa.Next); ok && lp.Blocks[nx.Block()] {
				return true
			}
		}
	}
	return false
}

// endJobsRecorded: if the loop records jobs for an End hook, each iteration's
// job is stored at the range index (slice) or appended (map), and the End
// hook's Dependencies is that slice.
func (g *gpass) endJobsRecorded(wc *wrapCtx, lp *vc.Loop) bool {
	fn := wc.w.fn
	// find the Enqueue in the loop and what happens to its result
	for b := range lp.Blocks {
		for _, in := range b.Instrs {
			call, ok := in.(*ssa.Call)
			if !ok || !isSchedMethod(&call.Call, "Enqueue") {
				continue
			}
			refs := *call.Referrers()
			if len(refs) == 0 {
				// no End hook: fine as long as no later Enqueue uses a Jobs slice
				return !g.hasJobsSlice(fn)
			}
			for _, r := range refs {
				switch r := r.(type) {
				case *ssa.Store:
					// Jobs[idx] = job
					ia, ok := r.Addr.(*ssa.IndexAddr)
					if !ok {
						return false
					}
					if _, isArr := ia.X.(*ssa.Alloc); isArr {
						return g.endDependsOnAppended(fn, call, lp)
					}
					if !isRangeIndex(ia.Index, lp) {
						return false
					}
					return g.endDependsOn(fn, ia.X, lp)
				case *ssa.DebugRef:
				default:
					// append(Jobs, job): job stored into a varargs array, appended, assigned to the Jobs variable
					return g.endDependsOnAppended(fn, call, lp)
				}
			}
		}
	}
	return true
}

func (g *gpass) hasJobsSlice(fn *ssa.Function) bool {
	for _, b := range fn.Blocks {
		for _, in := range b.Instrs {
			if ms, ok := in.(*ssa.MakeSlice); ok {
				if strings.Contains(ms.Type().String(), "ScheduledJob") {
					return true
				}
			}
		}
	}
	return false
}

// endDependsOn: some Enqueue after the loop has Dependencies == the slice
// jobs, which was made with len(range operand) before the loop.
func (g *gpass) endDependsOn(fn *ssa.Function, jobs ssa.Value, lp *vc.Loop) bool {
	ms, ok := jobs.(*ssa.MakeSlice)
	if !ok {
		return false
	}
	// length of the make == len(range operand): the header compares the index with the same len value
	lenOK := false
	if call, ok := ms.Len.(*ssa.Call); ok {
		if b, ok := call.Call.Value.(*ssa.Builtin); ok && b.Name() == "len" {
			// the loop's own length
			for _, in := range lp.Header.Instrs {
				if bo, ok := in.(*ssa.BinOp); ok && bo.Op == token.LSS {
					if l2, ok := bo.Y.(*ssa.Call); ok {
						if b2, ok := l2.Call.Value.(*ssa.Builtin); ok && b2.Name() == "len" {
							if sameLoad(call.Call.Args[0], l2.Call.Args[0]) {
								lenOK = true
							}
						}
					}
				}
			}
		}
	}
	if !lenOK {
		return false
	}
	return depsFieldIs(fn, jobs, lp)
}

func sameLoad(a, b ssa.Value) bool {
	if a == b {
		return true
	}
	la, ok1 := a.(*ssa.UnOp)
	lb, ok2 := b.(*ssa.UnOp)
	return ok1 && ok2 && la.X == lb.X
}

// depsFieldIs: exactly one Enqueue outside the loop stores v into Job.Dependencies.
func depsFieldIs(fn *ssa.Function, v ssa.Value, lp *vc.Loop) bool {
	n := 0
	for _, b := range fn.Blocks {
		if lp.Blocks[b] {
			continue
		}
		for _, in := range b.Instrs {
			st, ok := in.(*ssa.Store)
			if !ok {
				continue
			}
			fa, ok := st.Addr.(*ssa.FieldAddr)
			if !ok || fa.Field != 1 {
				continue
			}
			pt, _ := fa.X.Type().Underlying().(*types.Pointer)
			if pt == nil || !strings.HasSuffix(pt.Elem().String(), "scheduler.Job") && !strings.HasSuffix(pt.Elem().String(), "cff.Job") {
				continue
			}
			if st.Val == v {
				n++
			}
		}
	}
	return n == 1
}

func (g *gpass) endDependsOnAppended(fn *ssa.Function, call *ssa.Call, lp *vc.Loop) bool {
	// pattern: t = new [1]*Job (varargs); *(&t[0]) = call; s = slice t[:]; a = append(phi/jobs, s...); phi feeds back
	var app *ssa.Call
	for b := range lp.Blocks {
		for _, in := range b.Instrs {
			if c, ok := in.(*ssa.Call); ok {
				if bi, ok := c.Call.Value.(*ssa.Builtin); ok && bi.Name() == "append" && strings.Contains(c.Type().String(), "ScheduledJob") {
					app = c
				}
			}
		}
	}
	if app == nil {
		return false
	}
	// the appended slice carries exactly the Enqueue result
	sl, ok := app.Call.Args[1].(*ssa.Slice)
	if !ok {
		return false
	}
	arr, ok := sl.X.(*ssa.Alloc)
	if !ok {
		return false
	}
	okStore := false
	for _, r := range *arr.Referrers() {
		if ia, ok := r.(*ssa.IndexAddr); ok {
			for _, r2 := range *ia.Referrers() {
				if st, ok := r2.(*ssa.Store); ok && st.Val == call {
					okStore = true
				}
			}
		}
	}
	if !okStore {
		return false
	}
	// the loop-carried jobs value (phi in the header) reaches a Dependencies field after the loop
	for _, in := range lp.Header.Instrs {
		if phi, ok := in.(*ssa.Phi); ok && strings.Contains(phi.Type().String(), "ScheduledJob") {
			feeds := false
			for _, e := range phi.Edges {
				if e == app {
					feeds = true
				}
			}
			if feeds && depsFieldIs(fn, phi, lp) {
				return true
			}
		}
	}
	return false
}

var _ = sort.Strings

// allocVal loads the current value of the local variable name of frame f's
// function (an Alloc with that comment).
func allocVal(s *vc.State, f *vc.Frame, name string) vc.Value {
	for _, b := range f.Fn.Blocks {
		for _, in := range b.Instrs {
			if al, ok := in.(*ssa.Alloc); ok && al.Comment == name {
				if p, ok := f.Regs[al].(*vc.PtrVal); ok {
					return s.Load(p)
				}
			}
		}
	}
	return nil
}

// freeVal loads the current value of a captured variable of frame f.
func freeVal(s *vc.State, f *vc.Frame, name string) vc.Value {
	for i, fv := range f.Fn.FreeVars {
		if fv.Name() == name && i < len(f.Free) {
			if p, ok := f.Free[i].(*vc.PtrVal); ok {
				return s.Load(p)
			}
		}
	}
	return nil
}

// isRangeIndex: v is the index of the range statement of lp, directly or
// through its per-iteration copy (idx := idx).
func isRangeIndex(v ssa.Value, lp *vc.Loop) bool {
	if isRangeComponent(v, "idx", lp) {
		return true
	}
	if ld, ok := v.(*ssa.UnOp); ok && ld.Op == token.MUL {
		if al, ok := ld.X.(*ssa.Alloc); ok && lp.Blocks[al.Block()] {
			n := 0
			good := false
			for _, r := range *al.Referrers() {
				if st, ok := r.(*ssa.Store); ok && st.Addr == al {
					n++
					good = isRangeComponent(st.Val, "idx", lp)
				}
			}
			return n == 1 && good
		}
	}
	return false
}

func ssaStructField(fa *ssa.FieldAddr) string {
	st := fa.X.Type().Underlying().(*types.Pointer).Elem().Underlying().(*types.Struct)
	return st.Field(fa.Field).Name()
}

// hoistedPtrName: addr is the value of a hoisted variable (a register or the
// load of its cell); returns the variable's name.
func (wc *wrapCtx) hoistedPtrName(addr ssa.Value) string {
	if n, ok := wc.hoistedValName[addr]; ok {
		if _, isAlloc := addr.(*ssa.Alloc); !isAlloc {
			return n
		}
	}
	if ld, ok := addr.(*ssa.UnOp); ok && ld.Op == token.MUL {
		if al, ok := ld.X.(*ssa.Alloc); ok && wc.hoisted[al] {
			return al.Comment
		}
	}
	return ""
}

// noCapture: in every hoisted assignment _L_C := <user expression> of the
// wrapper literal, every identifier of the right-hand side resolves to an
// object declared outside the wrapper literal (or inside the expression
// itself): otherwise a name introduced by generated code captured it.
func (g *gpass) noCapture(w *wrapper) (bool, string) {
	lit, ok := w.fn.Syntax().(*ast.FuncLit)
	if !ok {
		return false, "wrapper has no function literal syntax"
	}
	pkg := w.fn.Pkg
	for p := w.fn; pkg == nil && p != nil; p = p.Parent() {
		pkg = p.Pkg
	}
	info := g.typesInfo(pkg.Pkg.Path())
	if info == nil {
		return false, "no type information for " + pkg.Pkg.Path()
	}
	// names that generated code declared in the wrapper's scope so far: any of
	// them is in scope of - and would capture a like-named identifier of - a user
	// expression hoisted after it, whether or not this program happens to use
	// the name
	var genDecl []string
	noteDecl := func(st ast.Stmt) {
		switch d := st.(type) {
		case *ast.AssignStmt:
			if d.Tok == token.DEFINE {
				for _, l := range d.Lhs {
					if id, ok := l.(*ast.Ident); ok && id.Name != "_" && !hoistedName.MatchString(id.Name) {
						genDecl = append(genDecl, id.Name)
					}
				}
			}
		case *ast.DeclStmt:
			if gd, ok := d.Decl.(*ast.GenDecl); ok {
				for _, sp := range gd.Specs {
					switch sp := sp.(type) {
					case *ast.ValueSpec:
						for _, n := range sp.Names {
							if n.Name != "_" {
								genDecl = append(genDecl, n.Name)
							}
						}
					case *ast.TypeSpec:
						genDecl = append(genDecl, sp.Name.Name)
					}
				}
			}
		}
	}
	for _, st := range lit.Body.List {
		as, ok := st.(*ast.AssignStmt)
		if !ok || as.Tok != token.DEFINE || len(as.Lhs) != 1 || len(as.Rhs) != 1 {
			noteDecl(st)
			continue
		}
		id, ok := as.Lhs[0].(*ast.Ident)
		if !ok || !hoistedName.MatchString(id.Name) {
			noteDecl(st)
			continue
		}
		if len(genDecl) > 0 {
			return false, fmt.Sprintf("generated code declares %s in the wrapper before the hoisted expression %s is evaluated: a user identifier of that name would be captured", strings.Join(genDecl, ", "), id.Name)
		}
		rhs := as.Rhs[0]
		bad := ""
		ast.Inspect(rhs, func(n ast.Node) bool {
			u, ok := n.(*ast.Ident)
			if !ok {
				return true
			}
			obj := info.Uses[u]
			if obj == nil || !obj.Pos().IsValid() {
				return true
			}
			// declared inside the wrapper but outside this expression: a generated binder
			if obj.Pos() >= lit.Pos() && obj.Pos() < lit.End() && !(obj.Pos() >= rhs.Pos() && obj.Pos() < rhs.End()) {
				bad = fmt.Sprintf("identifier %s in hoisted expression %s resolves to a name declared by generated code", u.Name, id.Name)
			}
			return true
		})
		if bad != "" {
			return false, bad
		}
	}
	return true, ""
}

func (g *gpass) typesInfo(path string) *types.Info {
	if g.infoByPath == nil {
		g.infoByPath = map[string]*types.Info{}
		packages.Visit(g.lr.Pkgs, nil, func(p *packages.Package) {
			g.infoByPath[p.PkgPath] = p.TypesInfo
		})
	}
	return g.infoByPath[path]
}
