package main

import (
	"fmt"
	"math/rand"
	"os"
	"path/filepath"
	"strings"
)

// Thorough tier: VERIF_SEED-seeded random well-formed directive programs.
// They are inputs to the real generator, not models: each generated instance
// is then verified against its role contracts for all of its inputs.

func writeRandomCorpus(dir string, seed int64, nFlows, nPars int) error {
	r := rand.New(rand.NewSource(seed))
	var sb strings.Builder
	sb.WriteString("//go:build cff\n// +build cff\n\npackage randcorpus\n\nimport (\n\t\"context\"\n\t\"errors\"\n\n\t\"go.uber.org/cff\"\n)\n\nvar _ = errors.New\n\n")
	maxT := 0
	var body strings.Builder
	for f := 0; f < nFlows; f++ {
		n := randomFlow(r, f, &body, &maxT)
		_ = n
	}
	for p := 0; p < nPars; p++ {
		randomParallel(r, p, &body)
	}
	for i := 0; i < maxT; i++ {
		fmt.Fprintf(&sb, "type T%d struct{ V int }\n", i)
	}
	sb.WriteString("\n")
	sb.WriteString(body.String())
	if err := os.MkdirAll(dir, 0o755); err != nil {
		return err
	}
	return os.WriteFile(filepath.Join(dir, "randcorpus.go"), []byte(sb.String()), 0o644)
}

func randomFlow(r *rand.Rand, idx int, out *strings.Builder, maxT *int) int {
	next := 0
	newT := func() int { next++; return next - 1 }
	var avail []int          // types with a provider so far
	consumed := map[int]bool{}
	nParams := 1 + r.Intn(2)
	var params []int
	for i := 0; i < nParams; i++ {
		t := newT()
		params = append(params, t)
		avail = append(avail, t)
	}
	type task struct {
		in, outs  []int
		ctx, err  bool
		pred      []int
		predCtx   bool
		fallback  bool
		instr     bool
	}
	var tasks []task
	nTasks := 2 + r.Intn(5)
	pick := func(k int) []int {
		seen := map[int]bool{}
		var res []int
		for len(res) < k && len(res) < len(avail) {
			t := avail[r.Intn(len(avail))]
			if !seen[t] {
				seen[t] = true
				res = append(res, t)
			}
		}
		return res
	}
	for i := 0; i < nTasks; i++ {
		t := task{ctx: r.Intn(3) == 0, err: r.Intn(2) == 0, instr: r.Intn(3) == 0}
		t.in = pick(1 + r.Intn(3))
		// make sure params get consumed early
		if i < len(params) && !consumed[params[i]] {
			has := false
			for _, x := range t.in {
				if x == params[i] {
					has = true
				}
			}
			if !has {
				t.in = append(t.in, params[i])
			}
		}
		for _, x := range t.in {
			consumed[x] = true
		}
		if r.Intn(3) == 0 {
			t.pred = pick(1 + r.Intn(2))
			t.predCtx = r.Intn(3) == 0
			for _, x := range t.pred {
				consumed[x] = true
			}
		}
		nOut := 1 + r.Intn(2)
		for j := 0; j < nOut; j++ {
			t.outs = append(t.outs, newT())
		}
		if t.err && r.Intn(2) == 0 {
			t.fallback = true
		}
		tasks = append(tasks, t)
		avail = append(avail, t.outs...)
	}
	for _, p := range params {
		if !consumed[p] {
			t := task{in: []int{p}, outs: []int{newT()}}
			consumed[p] = true
			tasks = append(tasks, t)
			avail = append(avail, t.outs...)
		}
	}
	var results []int
	for _, t := range avail {
		if !consumed[t] {
			results = append(results, t)
		}
	}
	if next > *maxT {
		*maxT = next
	}
	// shuffle listing order of the tasks (the directive's order is irrelevant)
	order := r.Perm(len(tasks))
	fmt.Fprintf(out, "func RandFlow%d(ctx context.Context", idx)
	for _, p := range params {
		fmt.Fprintf(out, ", p%d T%d", p, p)
	}
	fmt.Fprintf(out, ", em cff.Emitter) (")
	for _, t := range results {
		fmt.Fprintf(out, "r%d T%d, ", t, t)
	}
	fmt.Fprintf(out, "err error) {\n\terr = cff.Flow(ctx,\n")
	fmt.Fprintf(out, "\t\tcff.Params(")
	for i, p := range params {
		if i > 0 {
			out.WriteString(", ")
		}
		fmt.Fprintf(out, "p%d", p)
	}
	out.WriteString("),\n")
	if len(results) > 0 {
		out.WriteString("\t\tcff.Results(")
		for i, t := range results {
			if i > 0 {
				out.WriteString(", ")
			}
			fmt.Fprintf(out, "&r%d", t)
		}
		out.WriteString("),\n")
	}
	anyInstr := false
	for _, t := range tasks {
		if t.instr {
			anyInstr = true
		}
	}
	if anyInstr {
		fmt.Fprintf(out, "\t\tcff.WithEmitter(em),\n\t\tcff.InstrumentFlow(\"rand%d\"),\n", idx)
	}
	if r.Intn(2) == 0 {
		fmt.Fprintf(out, "\t\tcff.Concurrency(%d),\n", 1+r.Intn(4))
	}
	for _, ti := range order {
		t := tasks[ti]
		out.WriteString("\t\tcff.Task(\n\t\t\tfunc(")
		var ps []string
		if t.ctx {
			ps = append(ps, "ctx context.Context")
		}
		for _, x := range t.in {
			ps = append(ps, fmt.Sprintf("a%d T%d", x, x))
		}
		out.WriteString(strings.Join(ps, ", "))
		out.WriteString(") (")
		var rs []string
		for _, x := range t.outs {
			rs = append(rs, fmt.Sprintf("T%d", x))
		}
		if t.err {
			rs = append(rs, "error")
		}
		out.WriteString(strings.Join(rs, ", "))
		out.WriteString(") {\n\t\t\t\treturn ")
		var vs []string
		sum := "0"
		for _, x := range t.in {
			sum += fmt.Sprintf(" + a%d.V", x)
		}
		for _, x := range t.outs {
			vs = append(vs, fmt.Sprintf("T%d{V: %s}", x, sum))
		}
		if t.err {
			vs = append(vs, "nil")
		}
		out.WriteString(strings.Join(vs, ", "))
		out.WriteString("\n\t\t\t},\n")
		if t.pred != nil {
			out.WriteString("\t\t\tcff.Predicate(func(")
			var pp []string
			if t.predCtx {
				pp = append(pp, "ctx context.Context")
			}
			for _, x := range t.pred {
				pp = append(pp, fmt.Sprintf("a%d T%d", x, x))
			}
			out.WriteString(strings.Join(pp, ", "))
			fmt.Fprintf(out, ") bool { return a%d.V >= 0 }),\n", t.pred[0])
		}
		if t.fallback {
			out.WriteString("\t\t\tcff.FallbackWith(")
			for i, x := range t.outs {
				if i > 0 {
					out.WriteString(", ")
				}
				fmt.Fprintf(out, "T%d{V: -1}", x)
			}
			out.WriteString("),\n")
		}
		if t.instr {
			fmt.Fprintf(out, "\t\t\tcff.Instrument(\"t%d\"),\n", ti)
		}
		out.WriteString("\t\t),\n")
	}
	out.WriteString("\t)\n\treturn\n}\n\n")
	return len(tasks)
}

func randomParallel(r *rand.Rand, idx int, out *strings.Builder) {
	fmt.Fprintf(out, "func RandParallel%d(ctx context.Context, xs []string, m map[int]string, keep bool, sink func(int)) error {\n\treturn cff.Parallel(ctx,\n", idx)
	if r.Intn(2) == 0 {
		out.WriteString("\t\tcff.ContinueOnError(keep),\n")
	}
	if r.Intn(2) == 0 {
		fmt.Fprintf(out, "\t\tcff.Concurrency(%d),\n", 1+r.Intn(4))
	}
	nT := r.Intn(3)
	for i := 0; i < nT; i++ {
		switch r.Intn(3) {
		case 0:
			out.WriteString("\t\tcff.Task(func() { sink(1) }),\n")
		case 1:
			out.WriteString("\t\tcff.Task(func(ctx context.Context) error { sink(2); return ctx.Err() }),\n")
		default:
			out.WriteString("\t\tcff.Tasks(func() error { sink(3); return nil }, func(ctx context.Context) { sink(4) }),\n")
		}
	}
	cont := strings.Contains(out.String()[strings.LastIndex(out.String(), "func RandParallel"):], "ContinueOnError")
	if r.Intn(3) != 0 || nT == 0 {
		ctxp := ""
		if r.Intn(2) == 0 {
			ctxp = "ctx context.Context, "
		}
		idxp := ""
		if r.Intn(2) == 0 {
			idxp = "i int, "
		}
		errp, ret := "", ""
		if r.Intn(2) == 0 {
			errp, ret = " error", "; return nil"
		}
		fmt.Fprintf(out, "\t\tcff.Slice(func(%s%ss string)%s { sink(len(s))%s }, xs", ctxp, idxp, errp, ret)
		if !cont && r.Intn(2) == 0 {
			out.WriteString(", cff.SliceEnd(func() { sink(100) })")
		}
		out.WriteString("),\n")
	}
	if r.Intn(2) == 0 {
		fmt.Fprintf(out, "\t\tcff.Map(func(k int, v string) { sink(k + len(v)) }, m")
		if !cont && r.Intn(2) == 0 {
			out.WriteString(", cff.MapEnd(func(ctx context.Context) error { sink(200); return nil })")
		}
		out.WriteString("),\n")
	}
	out.WriteString("\t)\n}\n\n")
}
