// cffmut: a small source mutator used to measure how sensitive the contracts
// are. `cffmut -file F -func NAME -list` prints the number of mutation points in
// function NAME of file F; `cffmut -file F -func NAME -apply K -out G` writes F
// with mutation K applied. Mutations: negate an if / for condition, swap a
// comparison or arithmetic operator, flip ++/--, delete an assignment,
// increment / decrement or expression statement, replace a boolean literal.
package main

import (
	"bytes"
	"flag"
	"fmt"
	"go/ast"
	"go/parser"
	"go/printer"
	"go/token"
	"os"
)

type mutation struct {
	desc  string
	apply func()
}

func main() {
	file := flag.String("file", "", "Go source file")
	fn := flag.String("func", "", "function or method name (Recv.Name or Name)")
	list := flag.Bool("list", false, "print the number of mutation points")
	apply := flag.Int("apply", -1, "mutation to apply")
	out := flag.String("out", "", "output file")
	flag.Parse()
	fset := token.NewFileSet()
	f, err := parser.ParseFile(fset, *file, nil, parser.ParseComments)
	if err != nil {
		fmt.Fprintln(os.Stderr, err)
		os.Exit(2)
	}
	var muts []mutation
	for _, d := range f.Decls {
		fd, ok := d.(*ast.FuncDecl)
		if !ok || fd.Body == nil || funcName(fd) != *fn {
			continue
		}
		collect(fset, fd.Body, &muts)
	}
	if *list {
		for i, m := range muts {
			fmt.Printf("%d\t%s\n", i, m.desc)
		}
		return
	}
	if *apply < 0 || *apply >= len(muts) {
		fmt.Fprintln(os.Stderr, "no such mutation")
		os.Exit(2)
	}
	muts[*apply].apply()
	var buf bytes.Buffer
	if err := printer.Fprint(&buf, fset, f); err != nil {
		fmt.Fprintln(os.Stderr, err)
		os.Exit(2)
	}
	if err := os.WriteFile(*out, buf.Bytes(), 0o644); err != nil {
		fmt.Fprintln(os.Stderr, err)
		os.Exit(2)
	}
	fmt.Println(muts[*apply].desc)
}

func funcName(fd *ast.FuncDecl) string {
	if fd.Recv != nil && len(fd.Recv.List) == 1 {
		t := fd.Recv.List[0].Type
		if st, ok := t.(*ast.StarExpr); ok {
			t = st.X
		}
		if id, ok := t.(*ast.Ident); ok {
			return id.Name + "." + fd.Name.Name
		}
	}
	return fd.Name.Name
}

var swaps = map[token.Token]token.Token{
	token.LSS: token.LEQ, token.LEQ: token.LSS, token.GTR: token.GEQ, token.GEQ: token.GTR,
	token.EQL: token.NEQ, token.NEQ: token.EQL, token.ADD: token.SUB, token.SUB: token.ADD,
	token.LAND: token.LOR, token.LOR: token.LAND,
}

func collect(fset *token.FileSet, body *ast.BlockStmt, muts *[]mutation) {
	pos := func(n ast.Node) string { return fmt.Sprintf("line %d", fset.Position(n.Pos()).Line) }
	var visitBlock func(list *[]ast.Stmt)
	visitBlock = func(list *[]ast.Stmt) {
		for i := range *list {
			i := i
			st := (*list)[i]
			switch s := st.(type) {
			case *ast.AssignStmt:
				if s.Tok == token.ASSIGN || s.Tok == token.ADD_ASSIGN || s.Tok == token.SUB_ASSIGN {
					l := list
					*muts = append(*muts, mutation{"delete assignment at " + pos(s), func() { (*l)[i] = &ast.EmptyStmt{Semicolon: s.Pos()} }})
				}
			case *ast.IncDecStmt:
				l := list
				*muts = append(*muts, mutation{"delete inc/dec at " + pos(s), func() { (*l)[i] = &ast.EmptyStmt{Semicolon: s.Pos()} }})
				*muts = append(*muts, mutation{"flip inc/dec at " + pos(s), func() {
					if s.Tok == token.INC {
						s.Tok = token.DEC
					} else {
						s.Tok = token.INC
					}
				}})
			case *ast.ExprStmt:
				if _, ok := s.X.(*ast.CallExpr); ok {
					l := list
					*muts = append(*muts, mutation{"delete call statement at " + pos(s), func() { (*l)[i] = &ast.EmptyStmt{Semicolon: s.Pos()} }})
				}
			case *ast.SendStmt:
			}
		}
	}
	ast.Inspect(body, func(n ast.Node) bool {
		switch n := n.(type) {
		case *ast.BlockStmt:
			visitBlock(&n.List)
		case *ast.CaseClause:
			visitBlock(&n.Body)
		case *ast.CommClause:
			visitBlock(&n.Body)
		case *ast.IfStmt:
			*muts = append(*muts, mutation{"negate if condition at " + pos(n), func() { n.Cond = &ast.UnaryExpr{Op: token.NOT, X: &ast.ParenExpr{X: n.Cond}} }})
		case *ast.ForStmt:
			if n.Cond != nil {
				*muts = append(*muts, mutation{"negate for condition at " + pos(n), func() { n.Cond = &ast.UnaryExpr{Op: token.NOT, X: &ast.ParenExpr{X: n.Cond}} }})
			}
		case *ast.BinaryExpr:
			if to, ok := swaps[n.Op]; ok {
				from := n.Op
				*muts = append(*muts, mutation{fmt.Sprintf("replace %s by %s at %s", from, to, pos(n)), func() { n.Op = to }})
			}
		case *ast.Ident:
			if n.Name == "true" || n.Name == "false" {
				*muts = append(*muts, mutation{"flip boolean literal at " + pos(n), func() {
					if n.Name == "true" {
						n.Name = "false"
					} else {
						n.Name = "true"
					}
				}})
			}
		}
		return true
	})
}
