package vc

import (
	"crypto/sha1"
	"fmt"
	"go/types"
	"strings"

	"golang.org/x/tools/go/ssa"
)

// Unsupported is raised (as a panic) when the executor meets a construct
// outside the supported subset; the function's obligations are then
// ungenerated.
type Unsupported struct{ Msg string }

func (u *Unsupported) Error() string { return "unsupported: " + u.Msg }

func unsupported(format string, a ...any) {
	panic(&Unsupported{Msg: fmt.Sprintf(format, a...)})
}

// Event is an observable action of the path: calls to opaque functions,
// channel operations, go statements, closes.
type Event struct {
	Kind   string // call, send, recv, close, go, panic-escape
	Name   string // callee / channel description
	Args   []Value
	Rets   []Value
	Site   string
	Instr  ssa.Instruction
	Callee Value
}

type DeferRec struct {
	Call  *ssa.CallCommon
	Fn    Value
	Args  []Value
	Instr *ssa.Defer
}

type Frame struct {
	Fn      *ssa.Function
	Regs    map[ssa.Value]Value
	Block   *ssa.BasicBlock
	Prev    *ssa.BasicBlock
	Idx     int
	Defers  []DeferRec
	Free    []Value
	Vars    map[string]Value // source-level variable name -> current value (or *PtrVal to cell, marked in VarIsAddr)
	VarAddr map[string]bool
	// Return plumbing
	CallInstr   ssa.Instruction // instruction in the parent frame that gets the result (nil for top or deferred)
	IsDeferred  bool            // this frame runs a deferred call
	Recovered   bool            // a recover() in one of this frame's deferred calls stopped a panic
	RunningDefers bool
	DeferResume int // what to do after defers: 0 continue at Idx, 1 unwind further, 2 return via Recover block
	Results     []Value
	// site counters
	Counts map[string]int
	Spec   *FuncSpec
	OpenLoops map[*ssa.BasicBlock]bool
	EntryArgs []Value
}

type PanicInfo struct {
	Val    *Term // interface value (Int) of the panic
	Goexit bool
	Desc   string
}

// State is one symbolic path.
type State struct {
	X        *Exec
	PC       []*Term
	Heap     map[string]*Term
	Cells    map[*Cell]Value
	Frames   []*Frame
	Events   []Event
	Ghost    map[string]Value
	GhostTyp map[string]string
	Panic    *PanicInfo
	Boxes    map[string]Value // boxed struct values behind interface atoms
	Old      map[string]*Term // heap snapshot at function entry (for old())
	// Epoch counts, per component prefix, how often the prefix has been havocked. A
	// component that is first read after its prefix was havocked is not the entry
	// component: its atom is named after the epoch, so the pre- and post-state of a
	// call (or loop) never share an atom by accident.
	Epoch    map[string]int
	OldEpoch map[string]int // epochs at the snapshot Old was taken (nil: function entry)
	OldCells map[*Cell]Value
	Trace    []string // block trace for diagnostics
	Dead     bool
	Steps    int
}

func (s *State) top() *Frame { return s.Frames[len(s.Frames)-1] }

func (s *State) Assume(t *Term) {
	if t.IsTrue() {
		return
	}
	s.PC = append(s.PC, t)
	if t.IsFalse() {
		s.Dead = true
	}
}

func copyMap[K comparable, V any](m map[K]V) map[K]V {
	n := make(map[K]V, len(m))
	for k, v := range m {
		n[k] = v
	}
	return n
}

func (f *Frame) clone() *Frame {
	n := *f
	n.Regs = copyMap(f.Regs)
	n.Defers = append([]DeferRec(nil), f.Defers...)
	n.Vars = copyMap(f.Vars)
	n.VarAddr = copyMap(f.VarAddr)
	n.Counts = copyMap(f.Counts)
	n.OpenLoops = copyMap(f.OpenLoops)
	n.Results = append([]Value(nil), f.Results...)
	return &n
}

func (s *State) Fork() *State {
	n := *s
	n.PC = append([]*Term(nil), s.PC...)
	n.Heap = copyMap(s.Heap)
	n.Cells = copyMap(s.Cells)
	n.Frames = make([]*Frame, len(s.Frames))
	for i, f := range s.Frames {
		n.Frames[i] = f.clone()
	}
	n.Events = append([]Event(nil), s.Events...)
	n.Ghost = copyMap(s.Ghost)
	n.Epoch = copyMap(s.Epoch)
	n.Boxes = copyMap(s.Boxes)
	n.Trace = append([]string(nil), s.Trace...)
	if s.Panic != nil {
		p := *s.Panic
		n.Panic = &p
	}
	return &n
}

func shortKey(s string) string {
	if len(s) <= 64 {
		return s
	}
	h := sha1.Sum([]byte(s))
	return fmt.Sprintf("%s_%x", s[:40], h[:6])
}

// ---------- heap components ----------

// epochOf sums the epochs of every havocked prefix that covers component name.
func epochOf(epochs map[string]int, name string) int {
	n := 0
	for p, e := range epochs {
		if name == p || strings.HasPrefix(name, p+".") || strings.HasPrefix(name, p+"@") {
			n += e
		}
	}
	return n
}

func compAtom(name, sort string, epoch int) *Term {
	if epoch == 0 {
		return Atom("H0."+name, sort)
	}
	return Atom(fmt.Sprintf("He%d.%s", epoch, name), sort)
}

func (s *State) heapComp(name, sort string) *Term {
	name = shortKey(name)
	if t, ok := s.Heap[name]; ok {
		return t
	}
	t := compAtom(name, sort, epochOf(s.Epoch, name))
	s.Heap[name] = t
	s.lenAxiom(name, t)
	if s.Old != nil {
		if _, ok := s.Old[name]; !ok {
			o := compAtom(name, sort, epochOf(s.OldEpoch, name))
			s.Old[name] = o
			if o.Op != t.Op {
				s.lenAxiom(name, o)
			}
		}
	}
	return t
}

// lenAxiom states the typing invariant of slice-length components.
func (s *State) lenAxiom(name string, t *Term) {
	if strings.HasSuffix(name, "@len") && t.Sort == SArr(SInt, SInt) {
		r := Atom("q_r", SInt)
		s.Assume(Forall([]*Term{r}, Ge(Select(t, r), IntLit(0))))
	}
}

func (s *State) setHeapComp(name string, t *Term) {
	name = shortKey(name)
	// make sure the initial atom is registered for old()
	if _, ok := s.Heap[name]; !ok {
		s.heapComp(name, t.Sort)
	}
	s.Heap[name] = t
}

// loadHeap reads a value of type typ at component prefix comp for object ref.
func (s *State) loadHeap(comp string, ref *Term, typ types.Type) Value {
	switch u := typ.Underlying().(type) {
	case *types.Struct:
		sv := &StructVal{Typ: u, Fields: make([]Value, u.NumFields())}
		for i := 0; i < u.NumFields(); i++ {
			sv.Fields[i] = s.loadHeap(comp+"."+u.Field(i).Name(), ref, u.Field(i).Type())
		}
		return sv
	case *types.Slice:
		es := sortOfType(elemReifyType(u.Elem()))
		_, had := s.Heap[shortKey(comp+"@arr")]
		hc := s.heapComp(comp+"@arr", SArr(SInt, SArr(SInt, es)))
		if _, isPtr := u.Elem().Underlying().(*types.Pointer); isPtr && !had && strings.HasPrefix(hc.Op, "H0.") {
			// the entry heap holds no pointer to an object this function allocates later
			r, i := Atom("q_r", SInt), Atom("q_i", SInt)
			s.Assume(Forall([]*Term{r, i}, Lt(Select(Select(hc, r), i), IntLit(objBase))))
		}
		arr := Select(hc, ref)
		ln := Select(s.heapComp(comp+"@len", SArr(SInt, SInt)), ref)
		return &SliceVal{Arr: arr, Len: ln, Cap: ln, Elem: u.Elem()}
	case *types.Array:
		es := sortOfType(elemReifyType(u.Elem()))
		arr := Select(s.heapComp(comp+"@arr", SArr(SInt, SArr(SInt, es))), ref)
		return &ArrayVal{Arr: arr, N: u.Len(), Elem: u.Elem()}
	default:
		_, had := s.Heap[shortKey(comp)]
		hc := s.heapComp(comp, SArr(SInt, sortOfType(typ)))
		if _, isPtr := typ.Underlying().(*types.Pointer); isPtr && !had && strings.HasPrefix(hc.Op, "H0.") {
			// the entry heap holds no pointer to an object this function allocates later
			r := Atom("q_r", SInt)
			s.Assume(Forall([]*Term{r}, Lt(Select(hc, r), IntLit(objBase))))
		}
		t := Select(hc, ref)
		return s.unreify(t, typ)
	}
}

func (s *State) storeHeap(comp string, ref *Term, typ types.Type, v Value) {
	switch u := typ.Underlying().(type) {
	case *types.Struct:
		sv, ok := v.(*StructVal)
		if !ok {
			unsupported("store non-struct value %s into struct field %s", valueString(v), comp)
		}
		for i := 0; i < u.NumFields(); i++ {
			s.storeHeap(comp+"."+u.Field(i).Name(), ref, u.Field(i).Type(), sv.Fields[i])
		}
	case *types.Slice:
		sl := s.sliceSnapshot(v)
		es := sortOfType(elemReifyType(u.Elem()))
		a := s.heapComp(comp+"@arr", SArr(SInt, SArr(SInt, es)))
		l := s.heapComp(comp+"@len", SArr(SInt, SInt))
		s.setHeapComp(comp+"@arr", Store(a, ref, sl.Arr))
		s.setHeapComp(comp+"@len", Store(l, ref, sl.Len))
	case *types.Array:
		av, ok := v.(*ArrayVal)
		if !ok {
			unsupported("store non-array into array field")
		}
		es := sortOfType(elemReifyType(u.Elem()))
		a := s.heapComp(comp+"@arr", SArr(SInt, SArr(SInt, es)))
		s.setHeapComp(comp+"@arr", Store(a, ref, av.Arr))
	default:
		c := s.heapComp(comp, SArr(SInt, sortOfType(typ)))
		s.setHeapComp(comp, Store(c, ref, s.reify(v, typ)))
	}
}

// elemReifyType: element types of slices are reified to scalars.
func elemReifyType(t types.Type) types.Type { return t }

// sliceSnapshot returns a value-semantic copy of a slice value.
func (s *State) sliceSnapshot(v Value) *SliceVal {
	sl, ok := v.(*SliceVal)
	if !ok {
		unsupported("expected slice value, got %s", valueString(v))
	}
	if sl.Backing == nil {
		return sl
	}
	av := s.Cells[sl.Backing].(*ArrayVal)
	return &SliceVal{Arr: av.Arr, Len: sl.Len, Cap: sl.Cap, Elem: sl.Elem}
}

// ---------- reify / unreify ----------

func (s *State) reify(v Value, typ types.Type) *Term {
	switch v := v.(type) {
	case *Scalar:
		return v.T
	case *PtrVal:
		if len(v.Path) != 0 {
			unsupported("interior pointer stored symbolically: %s", valueString(v))
		}
		if v.Cell != nil {
			s.X.regCell(v.Cell)
			return IntLit(v.Cell.ID)
		}
		return v.Ref
	case *FuncVal:
		s.X.regFunc(v)
		return IntLit(v.ID)
	case *StructVal:
		// box
		b := s.X.Ctx.Fresh("box", SInt)
		s.Boxes[b.Op] = v
		return b
	case *SliceVal:
		b := s.X.Ctx.Fresh("slicebox", SInt)
		s.Boxes[b.Op] = s.sliceSnapshot(v)
		return b
	case *ArrayVal:
		b := s.X.Ctx.Fresh("arraybox", SInt)
		s.Boxes[b.Op] = v
		return b
	case TupleVal:
		unsupported("reify tuple")
	}
	unsupported("reify %T", v)
	return nil
}

func (s *State) unreify(t *Term, typ types.Type) Value {
	if typ == nil {
		return S(t)
	}
	switch u := typ.Underlying().(type) {
	case *types.Pointer:
		if n, ok := t.IntVal(); ok && n != 0 {
			if c := s.X.cellByID(n); c != nil {
				return &PtrVal{Cell: c, Base: c.Typ, Typ: c.Typ}
			}
		}
		return &PtrVal{Ref: t, Base: u.Elem(), Typ: u.Elem()}
	case *types.Signature:
		if n, ok := t.IntVal(); ok && n != 0 {
			if f := s.X.funcByID(n); f != nil {
				return f
			}
		}
		return S(t)
	case *types.Struct, *types.Slice, *types.Array:
		if t.IsAtom() {
			if b, ok := s.Boxes[t.Op]; ok {
				return b
			}
		}
		if sl, ok := u.(*types.Slice); ok {
			// a boxed slice of unknown origin: contents are a function of the box
			es := sortOfType(sl.Elem())
			s.X.Ctx.DeclareFunc("unbox.len", []string{SInt}, SInt)
			s.X.Ctx.DeclareFunc("unbox.arr."+es, []string{SInt}, SArr(SInt, es))
			ln := App("unbox.len", SInt, t)
			if len(s.PC) == 0 || !isBoundTerm(t) {
				s.Assume(Ge(ln, IntLit(0)))
			}
			return &SliceVal{Arr: App("unbox.arr."+es, SArr(SInt, es), t), Len: ln, Cap: ln, Elem: sl.Elem()}
		}
		if st, ok := u.(*types.Struct); ok {
			// a struct value of unknown origin identified by t: its fields are
			// functions of the identity
			sv := &StructVal{Typ: st, Fields: make([]Value, st.NumFields())}
			for i := 0; i < st.NumFields(); i++ {
				ft := st.Field(i).Type()
				name := "fld." + shortKey(typeKey(typ)) + "." + st.Field(i).Name()
				if isScalarType(ft) {
					so := sortOfType(ft)
					s.X.Ctx.DeclareFunc(name, []string{SInt}, so)
					ftm := App(name, so, t)
					if so == SInt && !isBoundTerm(t) {
						s.Assume(Ge(ftm, IntLit(0)))
					}
					sv.Fields[i] = s.unreify(ftm, ft)
				} else {
					s.X.Ctx.DeclareFunc(name, []string{SInt}, SInt)
					sv.Fields[i] = s.unreify(App(name, SInt, t), ft)
				}
			}
			return sv
		}
		// opaque aggregate: expand lazily as fresh
		return s.freshValue("unboxed", typ)
	}
	return S(t)
}

// ---------- fresh / zero values ----------

func (s *State) freshValue(hint string, typ types.Type) Value {
	switch u := typ.Underlying().(type) {
	case *types.Struct:
		sv := &StructVal{Typ: u, Fields: make([]Value, u.NumFields())}
		for i := range sv.Fields {
			sv.Fields[i] = s.freshValue(hint+"."+u.Field(i).Name(), u.Field(i).Type())
		}
		return sv
	case *types.Slice:
		es := sortOfType(u.Elem())
		ln := s.X.Ctx.Fresh(hint+"@len", SInt)
		s.Assume(Ge(ln, IntLit(0)))
		return &SliceVal{Arr: s.X.Ctx.Fresh(hint+"@arr", SArr(SInt, es)), Len: ln, Cap: ln, Elem: u.Elem()}
	case *types.Array:
		es := sortOfType(u.Elem())
		return &ArrayVal{Arr: s.X.Ctx.Fresh(hint+"@arr", SArr(SInt, es)), N: u.Len(), Elem: u.Elem()}
	case *types.Tuple:
		tv := make(TupleVal, u.Len())
		for i := range tv {
			tv[i] = s.freshValue(fmt.Sprintf("%s.%d", hint, i), u.At(i).Type())
		}
		return tv
	case *types.Pointer:
		t := s.X.Ctx.Fresh(hint, SInt)
		s.Assume(Ge(t, IntLit(0)))
		return &PtrVal{Ref: t, Base: u.Elem(), Typ: u.Elem()}
	case *types.Basic:
		t := s.X.Ctx.Fresh(hint, sortOfType(typ))
		if t.Sort == SString {
			return S(t)
		}
		if u.Info()&types.IsUnsigned != 0 {
			s.Assume(Ge(t, IntLit(0)))
		}
		return S(t)
	default:
		t := s.X.Ctx.Fresh(hint, sortOfType(typ))
		if sortOfType(typ) == SInt {
			// interfaces, chans, maps, funcs: 0 is nil, identities are non-negative
			s.Assume(Ge(t, IntLit(0)))
		}
		return S(t)
	}
}

func (s *State) zeroValue(typ types.Type) Value {
	switch u := typ.Underlying().(type) {
	case *types.Struct:
		sv := &StructVal{Typ: u, Fields: make([]Value, u.NumFields())}
		for i := range sv.Fields {
			sv.Fields[i] = s.zeroValue(u.Field(i).Type())
		}
		return sv
	case *types.Slice:
		es := sortOfType(u.Elem())
		return &SliceVal{Arr: ConstArray(SArr(SInt, es), zeroTerm(es)), Len: IntLit(0), Cap: IntLit(0), Elem: u.Elem()}
	case *types.Array:
		es := sortOfType(u.Elem())
		return &ArrayVal{Arr: ConstArray(SArr(SInt, es), zeroTerm(es)), N: u.Len(), Elem: u.Elem()}
	case *types.Pointer:
		return &PtrVal{Ref: IntLit(0), Base: u.Elem(), Typ: u.Elem()}
	case *types.Tuple:
		tv := make(TupleVal, u.Len())
		for i := range tv {
			tv[i] = s.zeroValue(u.At(i).Type())
		}
		return tv
	}
	return S(zeroTerm(sortOfType(typ)))
}

func zeroTerm(sort string) *Term {
	if sort == SBool {
		return False
	}
	if sort == SString {
		return Atom("\"\"", SString)
	}
	if sort == SInt {
		return IntLit(0)
	}
	return ConstArray(sort, zeroTerm(ElemSort(sort)))
}

// ---------- load / store through pointers ----------

func navigate(v Value, path []PathElem) Value {
	for _, pe := range path {
		switch vv := v.(type) {
		case *StructVal:
			v = vv.Fields[pe.Field]
		case *ArrayVal:
			if pe.Index == nil {
				unsupported("field path into array")
			}
			v = elemValue(Select(vv.Arr, pe.Index), vv.Elem)
		default:
			unsupported("navigate into %T", v)
		}
	}
	return v
}

func elemValue(t *Term, typ types.Type) Value { return S(t) }

func (s *State) update(v Value, path []PathElem, nv Value, typ types.Type) Value {
	if len(path) == 0 {
		return nv
	}
	pe := path[0]
	switch vv := v.(type) {
	case *StructVal:
		n := &StructVal{Typ: vv.Typ, Fields: append([]Value(nil), vv.Fields...)}
		n.Fields[pe.Field] = s.update(vv.Fields[pe.Field], path[1:], nv, typ)
		return n
	case *ArrayVal:
		if len(path) != 1 {
			unsupported("nested path under array element")
		}
		return &ArrayVal{Arr: Store(vv.Arr, pe.Index, s.reify(nv, vv.Elem)), N: vv.N, Elem: vv.Elem}
	}
	unsupported("update into %T", v)
	return nil
}

func (s *State) Load(p *PtrVal) Value {
	if p.Cell != nil {
		v, ok := s.Cells[p.Cell]
		if !ok {
			v = s.freshValue("cell."+p.Cell.Name, p.Cell.Typ)
			s.Cells[p.Cell] = v
		}
		v = navigate(v, p.Path)
		if sc, ok := v.(*Scalar); ok {
			return s.unreify(sc.T, p.Typ)
		}
		return v
	}
	// heap object
	comp := typeKey(p.Base)
	typ := p.Base
	for _, pe := range p.Path {
		switch u := typ.Underlying().(type) {
		case *types.Struct:
			comp += "." + u.Field(pe.Field).Name()
			typ = u.Field(pe.Field).Type()
		case *types.Array:
			arr := s.loadHeap(comp, p.Ref, typ).(*ArrayVal)
			return s.unreify(Select(arr.Arr, pe.Index), u.Elem())
		default:
			unsupported("heap path through %s", typ)
		}
	}
	if _, ok := p.Base.Underlying().(*types.Struct); !ok && len(p.Path) == 0 {
		// pointer to non-struct heap object (e.g. *int from environment)
		return s.loadHeap("deref."+typeKey(p.Base), p.Ref, p.Base)
	}
	return s.loadHeap(comp, p.Ref, typ)
}

func (s *State) StoreTo(p *PtrVal, v Value) {
	if p.Cell != nil {
		old, ok := s.Cells[p.Cell]
		if !ok && len(p.Path) > 0 {
			old = s.freshValue("cell."+p.Cell.Name, p.Cell.Typ)
		}
		s.Cells[p.Cell] = s.update(old, p.Path, v, p.Typ)
		return
	}
	comp := typeKey(p.Base)
	typ := p.Base
	for i, pe := range p.Path {
		switch u := typ.Underlying().(type) {
		case *types.Struct:
			comp += "." + u.Field(pe.Field).Name()
			typ = u.Field(pe.Field).Type()
		case *types.Array:
			if i != len(p.Path)-1 {
				unsupported("nested heap array path")
			}
			arr := s.loadHeap(comp, p.Ref, typ).(*ArrayVal)
			s.storeHeap(comp, p.Ref, typ, &ArrayVal{Arr: Store(arr.Arr, pe.Index, s.reify(v, u.Elem())), N: arr.N, Elem: arr.Elem})
			return
		default:
			unsupported("heap path through %s", typ)
		}
	}
	if _, ok := p.Base.Underlying().(*types.Struct); !ok && len(p.Path) == 0 {
		s.storeHeap("deref."+typeKey(p.Base), p.Ref, p.Base, v)
		return
	}
	s.storeHeap(comp, p.Ref, typ, v)
}

// valueEq builds the equality of two values of the same shape.
func (s *State) valueEq(a, b Value) *Term {
	switch av := a.(type) {
	case *Scalar:
		switch bv := b.(type) {
		case *Scalar:
			return Eq(av.T, bv.T)
		default:
			return Eq(av.T, s.reify(b, nil))
		}
	case *StructVal:
		bv, ok := b.(*StructVal)
		if !ok || len(bv.Fields) != len(av.Fields) {
			return False
		}
		var cs []*Term
		for i := range av.Fields {
			cs = append(cs, s.valueEq(av.Fields[i], bv.Fields[i]))
		}
		return And(cs...)
	case *PtrVal, *FuncVal:
		if _, ok := b.(*StructVal); ok {
			return False
		}
		return Eq(s.reify(a, nil), s.reify(b, nil))
	case *SliceVal:
		bv, ok := b.(*SliceVal)
		if !ok {
			return False
		}
		x, y := s.sliceSnapshot(av), s.sliceSnapshot(bv)
		return And(Eq(x.Len, y.Len), Eq(x.Arr, y.Arr))
	case *ArrayVal:
		bv, ok := b.(*ArrayVal)
		if !ok {
			return False
		}
		return Eq(av.Arr, bv.Arr)
	}
	unsupported("valueEq %T", a)
	return nil
}

// isBoundTerm reports whether t mentions a quantifier-bound variable (q_*).
func isBoundTerm(t *Term) bool {
	if t.IsAtom() {
		return strings.HasPrefix(t.Op, "q_")
	}
	for _, a := range t.Args {
		if isBoundTerm(a) {
			return true
		}
	}
	return false
}
