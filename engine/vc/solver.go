package vc

import (
	"bytes"
	"context"
	"fmt"
	"os"
	"os/exec"
	"path/filepath"
	"runtime"
	"strings"
	"sync"
	"time"
)

// FuncDecl is an uninterpreted function declaration.
type FuncDecl struct {
	Name string
	Args []string
	Ret  string
}

// Axiom is a named prelude axiom; it is included in a query when any of its
// trigger function symbols occurs in the query.
type Axiom struct {
	Name     string
	Triggers []string
	Body     string // SMT-LIB text of the assertion body
	Needs    []string
}

// Ctx holds global declarations shared by all obligations of a run.
type Ctx struct {
	mu     sync.Mutex
	Funcs  map[string]*FuncDecl
	Axioms []*Axiom
	fresh  int
}

func NewCtx() *Ctx {
	return &Ctx{Funcs: map[string]*FuncDecl{}}
}

func (c *Ctx) DeclareFunc(name string, args []string, ret string) {
	c.mu.Lock()
	defer c.mu.Unlock()
	if _, ok := c.Funcs[name]; !ok {
		c.Funcs[name] = &FuncDecl{Name: name, Args: args, Ret: ret}
	}
}

func (c *Ctx) AddAxiom(a *Axiom) {
	c.mu.Lock()
	defer c.mu.Unlock()
	for _, b := range c.Axioms {
		if b.Name == a.Name {
			return
		}
	}
	c.Axioms = append(c.Axioms, a)
}

// Fresh returns a fresh constant.
func (c *Ctx) Fresh(prefix, sort string) *Term {
	c.mu.Lock()
	c.fresh++
	n := c.fresh
	c.mu.Unlock()
	prefix = sanitize(prefix)
	return Atom(fmt.Sprintf("%s!%d", prefix, n), sort)
}

func sanitize(s string) string {
	var sb strings.Builder
	for _, r := range s {
		switch {
		case r >= 'a' && r <= 'z', r >= 'A' && r <= 'Z', r >= '0' && r <= '9', r == '_', r == '.', r == '$':
			sb.WriteRune(r)
		default:
			sb.WriteRune('_')
		}
	}
	if sb.Len() == 0 {
		return "v"
	}
	return sb.String()
}

// Status of a solver query.
type Status int

const (
	Unsat Status = iota
	Sat
	Unknown
)

func (s Status) String() string {
	return [...]string{"unsat", "sat", "unknown"}[s]
}

type SolveResult struct {
	Status  Status
	Backend string
	Seconds float64
	Model   string
	Output  string // raw outputs when not unsat
	Query   string
}

// BuildQuery renders hyps ∧ ¬goal as an SMT-LIB2 script.
func (c *Ctx) BuildQuery(hyps []*Term, goal *Term, wantModel bool) string {
	atoms := map[string]string{}
	funcs := map[string]bool{}
	for _, h := range hyps {
		h.Symbols(atoms, funcs)
	}
	goal.Symbols(atoms, funcs)
	// axioms: fixpoint on triggers
	var axs []*Axiom
	used := map[*Axiom]bool{}
	for changed := true; changed; {
		changed = false
		for _, a := range c.Axioms {
			if used[a] {
				continue
			}
			for _, t := range a.Triggers {
				if funcs[t] {
					used[a] = true
					axs = append(axs, a)
					for _, n := range a.Needs {
						funcs[n] = true
					}
					changed = true
					break
				}
			}
		}
	}
	var sb strings.Builder
	sb.WriteString("(set-option :produce-models true)\n(set-logic ALL)\n")
	for _, k := range sortedKeys(funcs) {
		d := c.Funcs[k]
		if d == nil {
			// atoms used with args? should not happen
			sb.WriteString("; undeclared function " + k + "\n")
			continue
		}
		sb.WriteString("(declare-fun " + d.Name + " (" + strings.Join(d.Args, " ") + ") " + d.Ret + ")\n")
	}
	for _, k := range sortedKeys(atoms) {
		if _, isF := c.Funcs[k]; isF {
			continue
		}
		sb.WriteString("(declare-fun " + k + " () " + atoms[k] + ")\n")
	}
	for _, a := range axs {
		sb.WriteString("(assert (! " + a.Body + " :named ax_" + sanitize(a.Name) + "))\n")
	}
	for _, h := range hyps {
		sb.WriteString("(assert " + smtString(h) + ")\n")
	}
	sb.WriteString("(assert (not " + smtString(goal) + "))\n")
	sb.WriteString("(check-sat)\n")
	if wantModel {
		sb.WriteString("(get-model)\n")
	}
	return sb.String()
}

// SolverConfig selects back ends and time-outs.
type SolverConfig struct {
	TimeoutSec int
	Backends   []string // subset of z3, z3-new, cvc5
	Dir        string   // scratch directory for query files
	Keep       bool
}

var solverSem = make(chan struct{}, runtime.NumCPU())

func backendCmd(b string, timeout int, file string) *exec.Cmd {
	switch b {
	case "z3":
		return exec.Command("/usr/bin/z3", fmt.Sprintf("-T:%d", timeout), file)
	case "z3-new":
		return exec.Command("z3-new", fmt.Sprintf("-T:%d", timeout), file)
	case "cvc5":
		return exec.Command("cvc5", fmt.Sprintf("--tlimit=%d", timeout*1000), file)
	}
	panic("unknown backend " + b)
}

var queryCounter struct {
	sync.Mutex
	n int
}

// Solve races the configured back ends on one query.
func (c *Ctx) Solve(cfg *SolverConfig, name string, hyps []*Term, goal *Term) *SolveResult {
	if goal.IsTrue() {
		return &SolveResult{Status: Unsat, Backend: "structural"}
	}
	for _, h := range hyps {
		if h.IsFalse() {
			return &SolveResult{Status: Unsat, Backend: "structural"}
		}
	}
	q := c.BuildQuery(hyps, goal, true)
	queryCounter.Lock()
	queryCounter.n++
	n := queryCounter.n
	queryCounter.Unlock()
	file := filepath.Join(cfg.Dir, fmt.Sprintf("q%05d_%s.smt2", n, sanitize(name)))
	if len(file) > 200 {
		file = file[:200] + ".smt2"
	}
	if err := os.WriteFile(file, []byte(q), 0o644); err != nil {
		return &SolveResult{Status: Unknown, Output: err.Error()}
	}
	if !cfg.Keep {
		defer os.Remove(file)
	}
	type out struct {
		backend string
		status  Status
		text    string
		secs    float64
	}
	ctx, cancel := context.WithCancel(context.Background())
	defer cancel()
	ch := make(chan out, len(cfg.Backends))
	for _, b := range cfg.Backends {
		b := b
		go func() {
			solverSem <- struct{}{}
			defer func() { <-solverSem }()
			if ctx.Err() != nil {
				ch <- out{b, Unknown, "cancelled", 0}
				return
			}
			cmd := backendCmd(b, cfg.TimeoutSec, file)
			var buf bytes.Buffer
			cmd.Stdout = &buf
			cmd.Stderr = &buf
			start := time.Now()
			if err := cmd.Start(); err != nil {
				ch <- out{b, Unknown, err.Error(), 0}
				return
			}
			done := make(chan struct{})
			go func() {
				select {
				case <-ctx.Done():
					cmd.Process.Kill()
				case <-done:
				}
			}()
			cmd.Wait()
			close(done)
			secs := time.Since(start).Seconds()
			text := buf.String()
			first := strings.TrimSpace(strings.SplitN(text, "\n", 2)[0])
			st := Unknown
			switch first {
			case "unsat":
				st = Unsat
			case "sat":
				st = Sat
			}
			ch <- out{b, st, text, secs}
		}()
	}
	res := &SolveResult{Status: Unknown, Query: q}
	var outputs []string
	total := 0.0
	for range cfg.Backends {
		o := <-ch
		total += o.secs
		if o.status == Unsat {
			res.Status = Unsat
			res.Backend = o.backend
			res.Seconds = o.secs
			cancel()
			return res
		}
		if o.status == Sat && res.Status != Sat {
			res.Status = Sat
			res.Backend = o.backend
			res.Seconds = o.secs
			res.Model = o.text
			// Keep waiting a little? A sat answer with quantifiers from one
			// solver is definitive for that solver; accept it.
			cancel()
			return res
		}
		outputs = append(outputs, o.backend+": "+strings.TrimSpace(firstLines(o.text, 3)))
	}
	res.Seconds = total
	res.Output = strings.Join(outputs, " | ")
	return res
}

func firstLines(s string, n int) string {
	ls := strings.SplitN(s, "\n", n+1)
	if len(ls) > n {
		ls = ls[:n]
	}
	return strings.Join(ls, "\n")
}
