package vc

import (
	"bufio"
	"crypto/sha1"
	"fmt"
	"go/ast"
	"go/parser"
	"os"
	"regexp"
	"strconv"
	"strings"
)

// Clause is one contract clause.
type Clause struct {
	Kind  string   // requires ensures invariant assert assume ghost
	Props []string // property ids this clause serves
	Label string
	Text  string
	Expr  ast.Expr // condition, or RHS for ghost
	// ghost assignment target: Name or Name[Index]...
	GhostLHS ast.Expr
	Exit     string // ensures: "" (normal returns), "returnN", "panic", "any"
	File     string
	Line     int
	Func     string
	Site     string
}

type GhostDecl struct {
	Name string
	Type string
	Init ast.Expr
}

type SiteSpec struct {
	Site    string
	Clauses []*Clause
}

type LoopSpec struct {
	Ordinal    int
	Invariants []*Clause
}

// FuncSpec is the contract of one function.
type FuncSpec struct {
	Pkg      string
	Name     string // RelString name, e.g. "(*Scheduler).run", "worker$1"
	Ghosts   []GhostDecl
	Requires []*Clause
	Ensures  []*Clause
	Loops    map[int]*LoopSpec
	Sites    map[string]*SiteSpec
	SiteList []string
	Modifies []string // heap component prefixes the function may modify (for callers)
	Trusted  bool     // contract assumed, body not verified
	MayPanic bool     // escaping panics allowed
	Inline   bool
	Options  map[string]string
	File     string
	Line     int
}

// ContractFile is a parsed //@ file.
type ContractFile struct {
	Path   string
	Funcs  []*FuncSpec
	Macros map[string]string
	// Frame declarations: "frame <kind> <func> <ordinal> <justification>: text"
	Frames []FrameDecl
}

// FrameDecl justifies one structurally checked site (a map iteration, a source
// of nondeterminism, a file-system write).
type FrameDecl struct {
	Kind    string // mapiter | nondet | fswrite
	Func    string
	Ordinal int
	Why     string // justification keyword
	Text    string
	Line    int
}

var frameRe = regexp.MustCompile(`^(\w+)\s+(.+?)\s+#(\d+)\s+([\w-]+)\s*:\s*(.*)$`)

var clauseHead = regexp.MustCompile(`^(\[[A-Za-z0-9, ]*\])?\s*([A-Za-z0-9_.\-]+)\s*:\s*(.*)$`)

func parseProps(s string) []string {
	s = strings.Trim(s, "[] ")
	if s == "" {
		return nil
	}
	var out []string
	for _, p := range strings.Split(s, ",") {
		p = strings.TrimSpace(p)
		if p != "" {
			out = append(out, p)
		}
	}
	return out
}

// ParseContractFile reads the //@ lines of a Go file.
func ParseContractFile(path string) (*ContractFile, error) {
	f, err := os.Open(path)
	if err != nil {
		return nil, err
	}
	defer f.Close()
	cf := &ContractFile{Path: path, Macros: map[string]string{}}
	sc := bufio.NewScanner(f)
	sc.Buffer(make([]byte, 1<<20), 1<<20)
	type ln struct {
		text string
		no   int
	}
	var lines []ln
	no := 0
	var pending *ln
	for sc.Scan() {
		no++
		raw := strings.TrimSpace(sc.Text())
		if !strings.HasPrefix(raw, "//@") {
			continue
		}
		t := strings.TrimSpace(strings.TrimPrefix(raw, "//@"))
		if t == "" || strings.HasPrefix(t, "#") {
			continue
		}
		if pending != nil {
			pending.text += " " + t
		} else {
			pending = &ln{text: t, no: no}
		}
		if strings.HasSuffix(pending.text, "\\") {
			pending.text = strings.TrimSpace(strings.TrimSuffix(pending.text, "\\"))
			continue
		}
		lines = append(lines, *pending)
		pending = nil
	}
	if pending != nil {
		lines = append(lines, *pending)
	}
	var cur *FuncSpec
	for _, l := range lines {
		fields := strings.Fields(l.text)
		head := fields[0]
		rest := strings.TrimSpace(strings.TrimPrefix(l.text, head))
		if strings.HasPrefix(head, "ensures@") {
			rest = head[len("ensures"):] + " " + rest
			head = "ensures"
		}
		errf := func(format string, a ...any) error {
			return fmt.Errorf("%s:%d: %s", path, l.no, fmt.Sprintf(format, a...))
		}
		expand := func(s string) string { return expandMacros(s, cf.Macros) }
		switch head {
		case "macro":
			// macro NAME(args) = body   or  macro NAME = body
			eq := strings.Index(rest, "=")
			if eq < 0 {
				return nil, errf("bad macro")
			}
			cf.Macros[strings.TrimSpace(rest[:eq])] = strings.TrimSpace(rest[eq+1:])
		case "frame":
			// frame <kind> <func...> #<n> <why>: text
			m := frameRe.FindStringSubmatch(rest)
			if m == nil {
				return nil, errf("frame wants: frame <kind> <func> #<n> <justification>: text")
			}
			n, _ := strconv.Atoi(m[3])
			_ = n
			cf.Frames = append(cf.Frames, FrameDecl{Kind: m[1], Func: strings.TrimSpace(m[2]), Ordinal: n, Why: m[4], Text: strings.TrimSpace(m[5]), Line: l.no})
		case "func":
			cur = &FuncSpec{Name: rest, Loops: map[int]*LoopSpec{}, Sites: map[string]*SiteSpec{}, Options: map[string]string{}, File: path, Line: l.no}
			cf.Funcs = append(cf.Funcs, cur)
		case "trusted":
			cur.Trusted = true
		case "may-panic":
			cur.MayPanic = true
		case "inline":
			cur.Inline = true
		case "option":
			kv := strings.SplitN(rest, "=", 2)
			if len(kv) == 2 {
				cur.Options[strings.TrimSpace(kv[0])] = strings.TrimSpace(kv[1])
			} else {
				cur.Options[strings.TrimSpace(rest)] = "true"
			}
		case "modifies":
			for _, m := range strings.Split(rest, ",") {
				if m = strings.TrimSpace(m); m != "" {
					cur.Modifies = append(cur.Modifies, m)
				}
			}
		case "ghost":
			// ghost name type [= init]
			if cur == nil {
				return nil, errf("ghost outside func")
			}
			parts := strings.SplitN(rest, "=", 2)
			nt := strings.Fields(parts[0])
			if len(nt) != 2 {
				return nil, errf("ghost wants: name type [= init]")
			}
			gd := GhostDecl{Name: nt[0], Type: nt[1]}
			if len(parts) == 2 {
				e, err := parser.ParseExpr(expand(strings.TrimSpace(parts[1])))
				if err != nil {
					return nil, errf("ghost init: %v", err)
				}
				gd.Init = e
			}
			cur.Ghosts = append(cur.Ghosts, gd)
		case "requires", "ensures":
			if cur == nil {
				return nil, errf("%s outside func", head)
			}
			exit := ""
			if head == "ensures" && strings.HasPrefix(rest, "@") {
				sp := strings.IndexAny(rest, " \t")
				exit = rest[1:sp]
				rest = strings.TrimSpace(rest[sp:])
			}
			c, err := parseClause(head, expand(rest), path, l.no)
			if err != nil {
				return nil, err
			}
			c.Exit = exit
			c.Func = cur.Name
			if head == "requires" {
				cur.Requires = append(cur.Requires, c)
			} else {
				cur.Ensures = append(cur.Ensures, c)
			}
		case "loop":
			// loop N invariant ...
			if len(fields) < 3 || fields[2] != "invariant" {
				return nil, errf("loop wants: loop N invariant [props] label: expr")
			}
			n, err := strconv.Atoi(fields[1])
			if err != nil {
				return nil, errf("loop ordinal: %v", err)
			}
			idx := strings.Index(l.text, "invariant")
			c, err := parseClause("invariant", expand(strings.TrimSpace(l.text[idx+len("invariant"):])), path, l.no)
			if err != nil {
				return nil, err
			}
			c.Func = cur.Name
			ls := cur.Loops[n]
			if ls == nil {
				ls = &LoopSpec{Ordinal: n}
				cur.Loops[n] = ls
			}
			ls.Invariants = append(ls.Invariants, c)
		case "at":
			// at <site words...> (assert|assume|ghost) ...
			kindIdx := -1
			for i := 1; i < len(fields); i++ {
				if fields[i] == "assert" || fields[i] == "assume" || fields[i] == "ghost" || fields[i] == "expect" {
					kindIdx = i
					break
				}
			}
			if kindIdx < 0 {
				return nil, errf("at wants: at <site> assert|assume|ghost ...")
			}
			site := canonSite(fields[1:kindIdx])
			kind := fields[kindIdx]
			// rest after kind
			pos := 0
			for i := 0; i <= kindIdx; i++ {
				pos = strings.Index(l.text[pos:], fields[i]) + pos + len(fields[i])
			}
			body := strings.TrimSpace(l.text[pos:])
			var c *Clause
			var err error
			if kind == "ghost" {
				c, err = parseGhost(expand(body), path, l.no)
			} else if kind == "expect" {
				c = &Clause{Kind: "expect", Text: body, File: path, Line: l.no}
			} else {
				c, err = parseClause(kind, expand(body), path, l.no)
			}
			if err != nil {
				return nil, err
			}
			c.Func = cur.Name
			c.Site = site
			ss := cur.Sites[site]
			if ss == nil {
				ss = &SiteSpec{Site: site}
				cur.Sites[site] = ss
				cur.SiteList = append(cur.SiteList, site)
			}
			ss.Clauses = append(ss.Clauses, c)
		default:
			return nil, errf("unknown directive %q", head)
		}
	}
	return cf, nil
}

// canonSite turns "select 1 arm 2" into "select#1.arm2", "call Emit 1" into
// "call:Emit#1", "store invalid 2" into "store:invalid#2", "return 1" into
// "return#1", "entry" into "entry", "send 1", "recv 1", "go 1", "defer 1".
func canonSite(w []string) string {
	suffix := ""
	if n := len(w); n > 1 && w[n-1] == "pre" {
		suffix = ".pre"
		w = w[:n-1]
	}
	switch w[0] {
	case "select":
		if len(w) == 4 && w[2] == "arm" {
			return "select#" + w[1] + ".arm" + w[3] + suffix
		}
		if len(w) == 3 && w[2] == "default" {
			return "select#" + w[1] + ".default"
		}
		return "select#" + w[1] + suffix
	case "call", "store", "load", "defer":
		if len(w) == 3 {
			return w[0] + ":" + w[1] + "#" + w[2] + suffix
		}
		return w[0] + ":" + w[1] + "#1" + suffix
	case "entry", "exit":
		return w[0]
	default:
		if len(w) == 2 {
			return w[0] + "#" + w[1] + suffix
		}
		return strings.Join(w, " ") + suffix
	}
}

func parseClause(kind, rest, path string, line int) (*Clause, error) {
	m := clauseHead.FindStringSubmatch(rest)
	c := &Clause{Kind: kind, File: path, Line: line}
	body := rest
	if m != nil && !strings.Contains(m[2], "(") {
		c.Props = parseProps(m[1])
		c.Label = m[2]
		body = m[3]
	} else {
		// unlabelled clause: a name that survives moving the clause in the file
		h := sha1.Sum([]byte(strings.Join(strings.Fields(body), " ")))
		c.Label = fmt.Sprintf("u%x", h[:4])
	}
	c.Text = body
	e, err := parser.ParseExpr(body)
	if err != nil {
		return nil, fmt.Errorf("%s:%d: %s clause %q: %v", path, line, kind, body, err)
	}
	c.Expr = e
	return c, nil
}

// parseGhost parses "lhs = rhs".
func parseGhost(body, path string, line int) (*Clause, error) {
	depth := 0
	eq := -1
	for i := 0; i < len(body); i++ {
		switch body[i] {
		case '(', '[':
			depth++
		case ')', ']':
			depth--
		case '=':
			if depth == 0 {
				prev := byte(' ')
				if i > 0 {
					prev = body[i-1]
				}
				next := byte(' ')
				if i+1 < len(body) {
					next = body[i+1]
				}
				if prev != '=' && prev != '!' && prev != '<' && prev != '>' && next != '=' {
					eq = i
				}
			}
		}
		if eq >= 0 {
			break
		}
	}
	if eq < 0 {
		return nil, fmt.Errorf("%s:%d: ghost statement wants lhs = rhs: %q", path, line, body)
	}
	lhs, err := parser.ParseExpr(strings.TrimSpace(body[:eq]))
	if err != nil {
		return nil, fmt.Errorf("%s:%d: ghost lhs: %v", path, line, err)
	}
	rhs, err := parser.ParseExpr(strings.TrimSpace(body[eq+1:]))
	if err != nil {
		return nil, fmt.Errorf("%s:%d: ghost rhs: %v", path, line, err)
	}
	return &Clause{Kind: "ghost", GhostLHS: lhs, Expr: rhs, Text: body, File: path, Line: line, Label: fmt.Sprintf("g%d", line)}, nil
}

var macroCall = regexp.MustCompile(`\$([A-Za-z0-9_]+)`)

// expandMacros replaces $NAME by the macro body, and $NAME(a, b) by the body
// of a macro declared as "macro NAME(x, y) = body" with x, y replaced
// (textual, whole identifiers).
func expandMacros(s string, macros map[string]string) string {
	// parameterised macros: key "NAME(x,y)"
	type pm struct {
		params []string
		body   string
	}
	pms := map[string]pm{}
	for k, b := range macros {
		if i := strings.Index(k, "("); i > 0 && strings.HasSuffix(k, ")") {
			var ps []string
			for _, p := range strings.Split(k[i+1:len(k)-1], ",") {
				ps = append(ps, strings.TrimSpace(p))
			}
			pms[k[:i]] = pm{ps, b}
		}
	}
	for i := 0; i < 20; i++ {
		changed := false
		// parameterised calls first (innermost-last is fine: we re-iterate)
		for name, m := range pms {
			for {
				idx := strings.Index(s, "$"+name+"(")
				if idx < 0 {
					break
				}
				start := idx + len(name) + 2
				depth, j := 1, start
				var args []string
				last := start
				for ; j < len(s) && depth > 0; j++ {
					switch s[j] {
					case '(', '[':
						depth++
					case ')', ']':
						depth--
						if depth == 0 {
							args = append(args, strings.TrimSpace(s[last:j]))
						}
					case ',':
						if depth == 1 {
							args = append(args, strings.TrimSpace(s[last:j]))
							last = j + 1
						}
					}
				}
				if depth != 0 || len(args) != len(m.params) {
					// malformed: leave it for the parser to report
					s = s[:idx] + "MACRO_ARITY_ERROR_" + name + s[idx+len(name)+1:]
					break
				}
				body := m.body
				for k, p := range m.params {
					body = regexp.MustCompile(`\b`+regexp.QuoteMeta(p)+`\b`).ReplaceAllLiteralString(body, "("+args[k]+")")
				}
				s = s[:idx] + "(" + body + ")" + s[j:]
				changed = true
			}
		}
		s = macroCall.ReplaceAllStringFunc(s, func(m string) string {
			if b, ok := macros[m[1:]]; ok {
				changed = true
				return "(" + b + ")"
			}
			return m
		})
		if !changed {
			break
		}
	}
	return s
}
