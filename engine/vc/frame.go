package vc

import (
	"go/types"

	"golang.org/x/tools/go/ssa"
)

// Frame / ownership conditions discharged structurally on the SSA.

// FreshResultSlice checks that every slice returned by fn (possibly boxed in
// an interface) is built only from nil, make and append chains inside fn, so
// that it shares no backing array with a parameter: the value-semantics model
// of slices (A-slice) is then exact for the result.
func FreshResultSlice(fn *ssa.Function) (bool, string) {
	seen := map[ssa.Value]bool{}
	var fresh func(v ssa.Value) (bool, string)
	fresh = func(v ssa.Value) (bool, string) {
		if seen[v] {
			return true, ""
		}
		seen[v] = true
		switch v := v.(type) {
		case *ssa.Const:
			return true, ""
		case *ssa.MakeSlice:
			return true, ""
		case *ssa.MakeInterface:
			if _, ok := v.X.Type().Underlying().(*types.Slice); ok {
				return fresh(v.X)
			}
			return true, ""
		case *ssa.ChangeType:
			return fresh(v.X)
		case *ssa.Phi:
			for _, e := range v.Edges {
				if ok, why := fresh(e); !ok {
					return false, why
				}
			}
			return true, ""
		case *ssa.Call:
			if b, ok := v.Call.Value.(*ssa.Builtin); ok && b.Name() == "append" {
				return fresh(v.Call.Args[0])
			}
			if _, ok := v.Type().Underlying().(*types.Slice); ok {
				return false, "slice obtained from a call: " + v.String()
			}
			return true, ""
		case *ssa.Slice:
			// slicing a fresh local array (composite literal) is fresh
			if al, ok := v.X.(*ssa.Alloc); ok {
				_ = al
				return true, ""
			}
			return fresh(v.X)
		}
		if _, ok := v.Type().Underlying().(*types.Slice); ok {
			return false, "slice derived from " + v.Name() + " = " + v.String()
		}
		return true, ""
	}
	for _, b := range fn.Blocks {
		for _, in := range b.Instrs {
			if r, ok := in.(*ssa.Return); ok {
				for _, res := range r.Results {
					switch res.Type().Underlying().(type) {
					case *types.Slice, *types.Interface:
						// only inspect values that can carry a slice
						if mi, ok := res.(*ssa.MakeInterface); ok {
							if ok2, why := fresh(mi); !ok2 {
								return false, why
							}
						} else if _, isSl := res.Type().Underlying().(*types.Slice); isSl {
							if ok2, why := fresh(res); !ok2 {
								return false, why
							}
						}
					}
				}
			}
		}
	}
	return true, ""
}

// Structural records a structurally decided obligation.
func (k *Sink) Structural(fn, kind, label string, props []string, ok bool, text string) {
	c := &Clause{Kind: kind, Label: label, Func: fn, Text: text, Props: props}
	goal := True
	if !ok {
		goal = False
	}
	k.mu.Lock()
	k.Instances = append(k.Instances, &Instance{Name: obName(k.Pass, c), Clause: c, Goal: goal, Trace: []string{text}})
	k.mu.Unlock()
}
