package vc

import (
	"fmt"
	"go/types"
	"strings"

	"golang.org/x/tools/go/ssa"
)

// Value is a symbolic Go value.
type Value interface{ isValue() }

// Scalar is an Int- or Bool-sorted term: integers, booleans, opaque values,
// interfaces (boxed identity), channels, maps, symbolic function values.
type Scalar struct{ T *Term }

// StructVal is a struct value, field-wise.
type StructVal struct {
	Typ    *types.Struct
	Fields []Value
}

// SliceVal is a slice. Contents are value-semantic (Arr) unless Backing is
// set, in which case contents live in the backing cell (an *ArrayVal) and
// element stores through the slice are supported.
type SliceVal struct {
	Arr     *Term // (Array Int E)
	Len     *Term
	Cap     *Term
	Backing *Cell
	Elem    types.Type
}

// ArrayVal is a Go array value.
type ArrayVal struct {
	Arr  *Term
	N    int64
	Elem types.Type
}

// PtrVal is a pointer: to a local cell (Cell != nil) with an access path, or
// to a symbolic-heap object (Ref) of struct type with a field path.
type PtrVal struct {
	Cell *Cell
	Ref  *Term        // heap object reference (Int)
	Base types.Type   // type of the object Ref / Cell points to
	Path []PathElem   // navigation inside the object
	Typ  types.Type   // pointee type after Path
}

type PathElem struct {
	Field int   // >= 0: struct field index
	Index *Term // non-nil: array index
}

// FuncVal is a known function or closure.
type FuncVal struct {
	Fn   *ssa.Function
	Free []Value
	ID   int64
	// Bound method closure receiver, if any.
	Recv Value
}

type TupleVal []Value

func (*Scalar) isValue()    {}
func (*StructVal) isValue() {}
func (*SliceVal) isValue()  {}
func (*ArrayVal) isValue()  {}
func (*PtrVal) isValue()    {}
func (*FuncVal) isValue()   {}
func (TupleVal) isValue()   {}

// Cell is a local memory cell (an ssa.Alloc of non-struct type, or any
// alloc kept concrete).
type Cell struct {
	ID   int64
	Name string
	Typ  types.Type
}

func S(t *Term) *Scalar { return &Scalar{T: t} }

// StringTheory switches Go strings from opaque integers to the SMT String sort
// (used for the file-name functions of cmd/cff).
var StringTheory = false

const SString = "String"

func sortOfType(t types.Type) string {
	if b, ok := t.Underlying().(*types.Basic); ok {
		if b.Info()&types.IsBoolean != 0 {
			return SBool
		}
		if StringTheory && b.Info()&types.IsString != 0 {
			return SString
		}
	}
	return SInt
}

func isScalarType(t types.Type) bool {
	switch u := t.Underlying().(type) {
	case *types.Struct, *types.Slice, *types.Array, *types.Tuple:
		_ = u
		return false
	}
	return true
}

func valueString(v Value) string {
	switch v := v.(type) {
	case nil:
		return "<nil>"
	case *Scalar:
		return v.T.String()
	case *StructVal:
		var parts []string
		for i, f := range v.Fields {
			parts = append(parts, v.Typ.Field(i).Name()+":"+valueString(f))
		}
		return "{" + strings.Join(parts, ", ") + "}"
	case *SliceVal:
		if v.Backing != nil {
			return fmt.Sprintf("slice(cell#%d,len=%s)", v.Backing.ID, v.Len)
		}
		return fmt.Sprintf("slice(%s,len=%s)", v.Arr, v.Len)
	case *ArrayVal:
		return fmt.Sprintf("array(%s,%d)", v.Arr, v.N)
	case *PtrVal:
		if v.Cell != nil {
			return fmt.Sprintf("&cell#%d(%s)%v", v.Cell.ID, v.Cell.Name, v.Path)
		}
		return fmt.Sprintf("&heap(%s)%v", v.Ref, v.Path)
	case *FuncVal:
		return fmt.Sprintf("func(%s#%d)", v.Fn.Name(), v.ID)
	case TupleVal:
		var parts []string
		for _, e := range v {
			parts = append(parts, valueString(e))
		}
		return "(" + strings.Join(parts, ", ") + ")"
	}
	return fmt.Sprintf("%T", v)
}

// typeKey is the heap-component prefix for a struct type.
func typeKey(t types.Type) string {
	s := types.TypeString(t, nil)
	return sanitize(s)
}
