package vc

import (
	"fmt"
	"go/ast"
	"go/types"
	"os"
	"sort"
	"strings"

	"golang.org/x/tools/go/ssa"
)

type astIdent = ast.Ident
type astIndexExpr = ast.IndexExpr

func rootIdent(x ast.Expr) string {
	for {
		switch e := x.(type) {
		case *ast.Ident:
			return e.Name
		case *ast.IndexExpr:
			x = e.X
		default:
			return ""
		}
	}
}

// calleeName is a canonical name for a call target.
func (x *Exec) calleeName(c *ssa.CallCommon, callee Value) string {
	if c.IsInvoke() {
		return "invoke " + types.TypeString(c.Value.Type(), nil) + "." + c.Method.Name()
	}
	if fv, ok := callee.(*FuncVal); ok {
		return fv.Fn.String()
	}
	switch v := c.Value.(type) {
	case *ssa.Function:
		return v.String()
	case *ssa.Builtin:
		return "builtin " + v.Name()
	}
	return "dynamic " + shortCallee(c)
}

func (x *Exec) calleeValue(s *State, f *Frame, c *ssa.CallCommon) Value {
	if c.IsInvoke() {
		return x.val(s, f, c.Value)
	}
	if b, ok := c.Value.(*ssa.Builtin); ok {
		return S(Atom("builtin."+b.Name(), SInt))
	}
	return x.val(s, f, c.Value)
}

func (x *Exec) callCtx(s *State, f *Frame, in ssa.Instruction, c *ssa.CallCommon) *CallCtx {
	cc := &CallCtx{Instr: in, Common: c}
	if c.IsInvoke() {
		cc.Args = append(cc.Args, x.val(s, f, c.Value))
	}
	for _, a := range c.Args {
		cc.Args = append(cc.Args, x.val(s, f, a))
	}
	cc.Name = x.calleeName(c, nil)
	if !c.IsInvoke() {
		if _, isB := c.Value.(*ssa.Builtin); !isB {
			cc.Name = x.calleeName(c, x.val(s, f, c.Value))
		}
	}
	if v, ok := in.(ssa.Value); ok {
		cc.ResType = v.Type()
	} else {
		cc.ResType = c.Signature().Results()
	}
	return cc
}

// call executes a Call instruction.
func (x *Exec) call(s *State, f *Frame, in *ssa.Call, c *ssa.CallCommon, deferred bool) []*State {
	cc := x.callCtx(s, f, in, c)
	callee := x.calleeValue(s, f, c)
	// pre-call site hooks (assert on args, ghost)
	pre := "pre"
	bind := argBindings(cc.Args)
	bind["callee"] = callee
	x.siteHooks(s, f, in, "call", shortCallee(c), bind, &pre)
	forks, pushed := x.invoke(s, f, cc, callee)
	if forks != nil {
		return forks
	}
	if pushed {
		return nil
	}
	// result already stored by invoke; run post hooks
	var res []Value
	if v, ok := f.Regs[in]; ok {
		res = []Value{v}
	}
	if r := x.afterCall(s, f, in, res); r != nil {
		return r
	}
	f.Idx++
	return nil
}

// afterCall runs post-call site hooks.
func (x *Exec) afterCall(s *State, f *Frame, in ssa.Instruction, res []Value) []*State {
	call, ok := in.(*ssa.Call)
	if !ok {
		return nil
	}
	bind := map[string]Value{}
	for i, a := range call.Call.Args {
		bind[fmt.Sprintf("arg%d", i)] = x.val(s, f, a)
	}
	switch len(res) {
	case 1:
		bind["ret"] = res[0]
		if tv, ok := res[0].(TupleVal); ok {
			for i, r := range tv {
				bind[fmt.Sprintf("ret%d", i)] = r
			}
		}
	default:
		for i, r := range res {
			bind[fmt.Sprintf("ret%d", i)] = r
		}
	}
	return x.siteHooks(s, f, in, "call", shortCallee(&call.Call), bind, nil)
}

// invoke performs a call. It either pushes a frame (pushed=true), or handles
// the call in place (storing the result register of cc.Instr if it is a
// value), or forks.
func (x *Exec) invoke(s *State, f *Frame, cc *CallCtx, callee Value) (forks []*State, pushed bool) {
	c := cc.Common
	setResult := func(v Value) {
		if cc.Deferred || v == nil {
			return
		}
		if val, ok := cc.Instr.(ssa.Value); ok {
			f.Regs[val] = v
		}
	}
	// builtins
	if b, ok := c.Value.(*ssa.Builtin); ok && !c.IsInvoke() {
		v, forks := x.builtin(s, f, cc, b)
		if forks != nil {
			return forks, false
		}
		setResult(v)
		return nil, false
	}
	// models by canonical name
	if m, ok := x.Models[cc.Name]; ok {
		if v, handled := m(s, cc); handled {
			if len(cc.Alts) > 0 {
				return x.forkAlts(s, cc), false
			}
			setResult(v)
			return nil, false
		}
	}
	var target *ssa.Function
	var fv *FuncVal
	if !c.IsInvoke() {
		if v, ok := callee.(*FuncVal); ok {
			fv = v
			target = v.Fn
		}
	}
	if target != nil {
		if m, ok := x.Models[target.String()]; ok {
			if v, handled := m(s, cc); handled {
				if len(cc.Alts) > 0 {
					return x.forkAlts(s, cc), false
				}
				setResult(v)
				return nil, false
			}
		}
		if spec, ok := x.Specs[target]; ok && !spec.Inline {
			v := x.callContract(s, f, cc, target, spec, fv)
			setResult(v)
			return nil, false
		}
	}
	mode := ModeAuto
	if x.Classify != nil {
		mode = x.Classify(s, cc, callee)
	}
	if mode == ModeAuto {
		if target != nil && len(target.Blocks) > 0 && (fv != nil && (target.Parent() != nil || x.samePackage(f.Fn, target))) && len(s.Frames) < x.InlineDepth {
			mode = ModeInline
		} else {
			mode = ModeOpaque
		}
	}
	if mode == ModeInline && (target == nil || len(target.Blocks) == 0) {
		mode = ModeOpaque
	}
	switch mode {
	case ModeInline:
		nf := x.newFrame(target, x.Specs[target])
		if sp := x.Specs[target]; sp != nil && !sp.Inline {
			nf.Spec = nil
		}
		args := cc.Args
		if len(args) != len(target.Params) {
			unsupported("arity mismatch calling %s", target.Name())
		}
		for i, p := range target.Params {
			nf.Regs[p] = args[i]
			nf.Vars[p.Name()] = args[i]
		}
		nf.EntryArgs = args
		nf.Free = fv.Free
		for i, fvv := range target.FreeVars {
			if i < len(fv.Free) {
				if pv, ok := fv.Free[i].(*PtrVal); ok {
					nf.Vars[fvv.Name()] = pv
					nf.VarAddr[fvv.Name()] = true
				}
			}
		}
		nf.IsDeferred = cc.Deferred
		if !cc.Deferred {
			nf.CallInstr = cc.Instr
		}
		s.Frames = append(s.Frames, nf)
		s.Trace = append(s.Trace, "call "+target.Name())
		if nf.Spec != nil {
			x.initGhostInline(s, nf)
		}
		return nil, true
	default:
		return x.opaqueCall(s, f, cc, callee, mode == ModeOpaquePanics, setResult), false
	}
}

func (x *Exec) initGhostInline(s *State, f *Frame) {}

func (x *Exec) samePackage(a, b *ssa.Function) bool {
	pa, pb := a.Pkg, b.Pkg
	if pa == nil && a.Parent() != nil {
		pa = a.Parent().Pkg
	}
	if pb == nil && b.Parent() != nil {
		pb = b.Parent().Pkg
	}
	return pa != nil && pa == pb
}

// opaqueCall records an event, havocs the result and optionally forks a
// panicking outcome.
func (x *Exec) opaqueCall(s *State, f *Frame, cc *CallCtx, callee Value, mayPanic bool, setResult func(Value)) []*State {
	x.externalSafety(s, f, cc)
	x.havocCalleeMods(s, f, cc, callee)
	var res Value
	sig := cc.Common.Signature()
	rt := sig.Results()
	if !mayPanic && x.PureFunc != nil && x.PureFunc(cc.Name) {
		res = x.pureResult(s, cc, rt)
	}
	if res == nil {
		switch rt.Len() {
		case 0:
		case 1:
			res = s.freshValue("ret."+shortCallee(cc.Common), rt.At(0).Type())
		default:
			res = s.freshValue("ret."+shortCallee(cc.Common), rt)
		}
	}
	ev := Event{Kind: "call", Name: cc.Name, Args: cc.Args, Instr: cc.Instr, Callee: callee}
	if res != nil {
		ev.Rets = []Value{res}
		if x.NonNilResult != nil && x.NonNilResult(cc.Name) {
			var nonNil func(v Value)
			nonNil = func(v Value) {
				switch r := v.(type) {
				case *PtrVal:
					if r.Cell == nil {
						s.Assume(Neq(r.Ref, IntLit(0)))
					}
				case *Scalar:
					if r.T.Sort == SInt {
						s.Assume(Neq(r.T, IntLit(0)))
					}
				case TupleVal:
					for _, e := range r {
						nonNil(e)
					}
				}
			}
			nonNil(res)
		}
	}
	if !mayPanic {
		s.Events = append(s.Events, ev)
		setResult(res)
		return nil
	}
	// fork: normal return / panic with arbitrary non-nil value / Goexit
	sp := s.Fork()
	s.Events = append(s.Events, ev)
	setResult(res)
	// panicking branch
	pv := x.Ctx.Fresh("panicval", SInt)
	if x.NilPanics {
		// pre-1.21 semantics: panic(nil) makes recover() return nil
		sp.Assume(Ge(pv, IntLit(0)))
	} else {
		sp.Assume(Gt(pv, IntLit(0)))
	}
	evp := ev
	evp.Rets = nil
	evp.Kind = "call-panicked"
	evp.Args = append(append([]Value(nil), cc.Args...), S(pv))
	sp.Events = append(sp.Events, evp)
	sp.Panic = &PanicInfo{Val: pv, Desc: "panic in " + cc.Name}
	var out []*State
	out = append(out, x.unwindIn(sp)...)
	if x.goexitEnabled(cc) {
		sg := s.Fork()
		// undo the normal event in the goexit fork
		sg.Events = append(sg.Events[:len(sg.Events)-1:len(sg.Events)-1], Event{Kind: "call-goexit", Name: cc.Name, Args: cc.Args, Instr: cc.Instr, Callee: callee})
		sg.Panic = &PanicInfo{Val: IntLit(0), Goexit: true, Desc: "Goexit in " + cc.Name}
		out = append(out, x.unwindIn(sg)...)
	}
	// continue the normal path in s: caller advances
	if cc.Deferred {
		// the deferred-call loop continues with s
		out = append(out, x.resumeDeferred(s)...)
		return out
	}
	fr := s.top()
	var resv []Value
	if res != nil {
		resv = []Value{res}
	}
	if r := x.afterCall(s, fr, cc.Instr, resv); r != nil {
		return append(out, r...)
	}
	fr.Idx++
	out = append(out, s)
	return out
}

// havocCalleeMods gives an opaque call to a function whose body is in the
// program a sound frame: every heap component its body (transitively) may
// store to is havocked. Library functions outside FrameScope keep the assumed
// "modifies nothing the contracts mention" frame.
func (x *Exec) havocCalleeMods(s *State, f *Frame, cc *CallCtx, callee Value) {
	if x.FrameScope == nil || cc.Common.IsInvoke() {
		return
	}
	fv, ok := callee.(*FuncVal)
	if !ok || len(fv.Fn.Blocks) == 0 || !x.FrameScope(fv.Fn) {
		return
	}
	ms := &modSet{Heap: map[string]bool{}, Ghost: map[string]bool{}}
	x.scanMods(fv.Fn, fv.Fn.Blocks, nil, ms, 0, map[*ssa.Function]bool{fv.Fn: true})
	var comps []string
	for comp := range ms.Heap {
		comps = append(comps, comp)
	}
	sort.Strings(comps)
	if debugOn {
		fmt.Fprintf(os.Stderr, "havoc at opaque call %s: %v allcells=%v\n", cc.Name, comps, ms.AllCells)
	}
	for _, comp := range comps {
		x.havocPrefix(s, comp)
	}
	if ms.AllHeap {
		for k := range s.Heap {
			x.havocPrefix(s, k)
		}
	}
	// captured variables the callee (or a literal nested in it) assigns
	for _, a := range ms.CellAddrs {
		fvar, ok := a.(*ssa.FreeVar)
		if !ok {
			continue
		}
		hit := false
		for i, ff := range fv.Fn.FreeVars {
			if ff == fvar && i < len(fv.Free) {
				hit = true
				switch p := fv.Free[i].(type) {
				case *PtrVal:
					if p.Cell != nil {
						s.Cells[p.Cell] = s.freshValue("call.cell."+p.Cell.Name, p.Cell.Typ)
					} else if p.Ref != nil {
						// captured struct variable (modelled as a heap object)
						x.havocPrefix(s, typeKey(p.Base))
					}
				}
			}
		}
		if !hit {
			ms.AllCells = true // a free variable of a nested literal: be conservative
		}
	}
	if ms.AllCells {
		for c := range s.Cells {
			s.Cells[c] = s.freshValue("call.cell."+c.Name, c.Typ)
		}
	}
}

// GoexitCalls enables the Goexit outcome for opaque panicking calls.
var goexitDefault = true

func (x *Exec) goexitEnabled(cc *CallCtx) bool { return x.Goexit }

func (x *Exec) unwindIn(s *State) []*State {
	r := x.unwind(s)
	if r == nil {
		return []*State{s}
	}
	return r
}

func (x *Exec) resumeDeferred(s *State) []*State {
	r := x.continueDefers(s)
	if r == nil {
		return []*State{s}
	}
	return r
}

// callContract applies a callee's contract at a call site.
func (x *Exec) callContract(s *State, f *Frame, cc *CallCtx, target *ssa.Function, spec *FuncSpec, fv *FuncVal) Value {
	// pseudo frame for evaluating the callee's clauses over the arguments
	pf := &Frame{Fn: target, Regs: map[ssa.Value]Value{}, Vars: map[string]Value{}, VarAddr: map[string]bool{}, Spec: spec}
	for i, p := range target.Params {
		if i < len(cc.Args) {
			pf.Vars[p.Name()] = cc.Args[i]
		}
	}
	pf.EntryArgs = cc.Args
	if fv != nil {
		// a closure under contract: its clauses may mention captured variables
		pf.Free = fv.Free
		for i, fvv := range target.FreeVars {
			if i < len(fv.Free) {
				if pv, ok := fv.Free[i].(*PtrVal); ok {
					pf.Vars[fvv.Name()] = pv
					pf.VarAddr[fvv.Name()] = true
				}
			}
		}
	}
	env := s.NewEnv(pf)
	for _, c := range spec.Requires {
		env.Side = nil
		t, err := env.EvalBool(c.Expr)
		if err != nil {
			evalErr("call %s requires %s: %v", spec.Name, c.Label, err)
		}
		for _, sd := range env.Side {
			s.Assume(sd)
		}
		cl := *c
		cl.Kind = "call-requires"
		cl.Label = spec.Name + "." + c.Label
		cl.Func = x.funcName(s.Frames[0].Fn)
		x.Sink.Assert(s, f, &cl, t, cc.Instr)
		s.Assume(t)
	}
	// snapshot for old()
	oldHeap := copyMap(s.Heap)
	oldEpoch := copyMap(s.Epoch)
	if oldEpoch == nil {
		oldEpoch = map[string]int{}
	}
	for _, m := range spec.Modifies {
		x.havocPrefix(s, m)
	}
	// sound default frame: whatever the callee's body may store to (the declared
	// modifies list is not trusted to be complete)
	if fv != nil {
		x.havocCalleeMods(s, f, cc, fv)
	} else {
		x.havocCalleeMods(s, f, cc, x.staticFunc(target))
	}
	var res Value
	rt := target.Signature.Results()
	switch rt.Len() {
	case 0:
	case 1:
		res = s.freshValue("ret."+target.Name(), rt.At(0).Type())
	default:
		res = s.freshValue("ret."+target.Name(), rt)
	}
	s.Events = append(s.Events, Event{Kind: "call", Name: target.String(), Args: cc.Args, Rets: []Value{res}, Instr: cc.Instr})
	// assume ensures with old = pre-call heap
	s2old, s2oldEpoch := s.Old, s.OldEpoch
	s.Old, s.OldEpoch = oldHeap, oldEpoch
	env = s.NewEnv(pf)
	if res != nil {
		env.Bound["result"] = res
		if tv, ok := res.(TupleVal); ok {
			for i, r := range tv {
				env.Bound[fmt.Sprintf("result%d", i)] = r
			}
		}
	}
	for _, c := range spec.Ensures {
		if c.Exit != "" && c.Exit != "any" {
			continue
		}
		env.Side = nil
		t, err := env.EvalBool(c.Expr)
		if err != nil {
			// a postcondition over the callee's ghost state cannot be used
			// by the caller: assuming less is sound
			x.diag("call of %s in %s: ensures %s not exported to the caller: %v", spec.Name, x.funcName(s.Frames[0].Fn), c.Label, err)
			continue
		}
		for _, sd := range env.Side {
			s.Assume(sd)
		}
		s.Assume(t)
	}
	s.Old, s.OldEpoch = s2old, s2oldEpoch
	return res
}

// havocPrefix replaces every heap component whose name starts with prefix.
func (x *Exec) havocPrefix(s *State, prefix string) {
	prefix = shortKey(prefix)
	if s.Epoch == nil {
		s.Epoch = map[string]int{}
	}
	s.Epoch[prefix]++
	for k, v := range s.Heap {
		if k == prefix || strings.HasPrefix(k, prefix+".") || strings.HasPrefix(k, prefix+"@") {
			s.Heap[k] = x.Ctx.Fresh("H."+k, v.Sort)
			s.lenAxiom(k, s.Heap[k])
		}
	}
}

// ---------------------------------------------------------------------
// builtins

func (x *Exec) builtin(s *State, f *Frame, cc *CallCtx, b *ssa.Builtin) (Value, []*State) {
	args := cc.Args
	switch b.Name() {
	case "len":
		switch v := args[0].(type) {
		case *SliceVal:
			return S(v.Len), nil
		case *ArrayVal:
			return S(IntLit(v.N)), nil
		case *Scalar:
			// string / map / chan length: uninterpreted, non-negative
			if v.T.Sort == SString {
				return S(App("str.len", SInt, v.T)), nil
			}
			x.Ctx.DeclareFunc("len.opaque", []string{SInt}, SInt)
			t := App("len.opaque", SInt, v.T)
			if mt, ok := cc.Common.Args[0].Type().Underlying().(*types.Map); ok {
				t = x.mapLen(s, v.T, mt)
			}
			s.Assume(Ge(t, IntLit(0)))
			return S(t), nil
		}
	case "cap":
		switch v := args[0].(type) {
		case *SliceVal:
			return S(v.Cap), nil
		case *Scalar:
			return S(Select(s.heapComp("chan.cap", SArr(SInt, SInt)), v.T)), nil
		}
	case "append":
		sl := s.sliceSnapshot(args[0])
		switch add := args[1].(type) {
		case *SliceVal:
			a := s.sliceSnapshot(add)
			if n, ok := a.Len.IntVal(); ok {
				arr := sl.Arr
				for i := int64(0); i < n; i++ {
					arr = Store(arr, Add(sl.Len, IntLit(i)), Select(a.Arr, IntLit(i)))
				}
				nl := Add(sl.Len, IntLit(n))
				return &SliceVal{Arr: arr, Len: nl, Cap: nl, Elem: sl.Elem}, nil
			}
			// symbolic length: fresh array with quantified description
			es := sortOfType(sl.Elem)
			na := x.Ctx.Fresh("append", SArr(SInt, es))
			i := Atom("q_i", SInt)
			s.Assume(Forall([]*Term{i}, Eq(Select(na, i), Ite(Lt(i, sl.Len), Select(sl.Arr, i), Select(a.Arr, Sub(i, sl.Len))))))
			nl := Add(sl.Len, a.Len)
			return &SliceVal{Arr: na, Len: nl, Cap: nl, Elem: sl.Elem}, nil
		case *Scalar:
			// append([]byte, string...)
			return s.freshValue("append", cc.ResType), nil
		}
	case "close":
		ch := x.scalar(args[0])
		x.safety(s, f, cc.Instr, "close-nil-or-closed", And(Neq(ch, IntLit(0)), Not(Select(s.heapComp("chan.closed", SArr(SInt, SBool)), ch))))
		s.setHeapComp("chan.closed", Store(s.heapComp("chan.closed", SArr(SInt, SBool)), ch, True))
		s.Events = append(s.Events, Event{Kind: "close", Name: "close", Args: []Value{S(ch)}, Instr: cc.Instr})
		x.closeHooks(s, f, cc, ch)
		return nil, nil
	case "recover":
		// only effective when called directly by a deferred function while panicking
		if f.IsDeferred && s.Panic != nil && !s.Panic.Goexit {
			v := s.Panic.Val
			s.Panic = nil
			// the frame whose defers are running has recovered
			if len(s.Frames) >= 2 {
				s.Frames[len(s.Frames)-2].Recovered = true
			}
			s.Events = append(s.Events, Event{Kind: "recover", Name: "recover", Args: []Value{S(v)}, Instr: cc.Instr})
			return S(v), nil
		}
		return S(IntLit(0)), nil
	case "panic":
		v := x.scalar(args[0])
		s.Panic = &PanicInfo{Val: v, Desc: "explicit panic"}
		return nil, x.unwindIn(s)
	case "copy":
		return s.freshValue("copy", types.Typ[types.Int]), nil
	case "delete":
		x.mapDelete(s, args[0], args[1], cc.Common.Args[0].Type())
		return nil, nil
	case "print", "println":
		return nil, nil
	case "min", "max":
		a, b2 := x.scalar(args[0]), x.scalar(args[1])
		if b.Name() == "min" {
			return S(Ite(Le(a, b2), a, b2)), nil
		}
		return S(Ite(Ge(a, b2), a, b2)), nil
	case "ssa:wrapnilchk":
		return args[0], nil
	}
	unsupported("builtin %s", b.Name())
	return nil, nil
}

func (x *Exec) closeHooks(s *State, f *Frame, cc *CallCtx, ch *Term) {}

// ---------------------------------------------------------------------
// channels and select

func (x *Exec) chanSend(s *State, f *Frame, in ssa.Instruction, ch Value, v Value, kind, sub string) []*State {
	cht := x.scalar(ch)
	s.Events = append(s.Events, Event{Kind: "send", Name: kind, Args: []Value{S(cht), v}, Instr: in})
	bind := map[string]Value{"ch": S(cht), "sent": v}
	if sub != "" {
		return x.siteHooks(s, f, in, kind, "", bind, &sub)
	}
	// send on closed channel panics
	x.safety(s, f, in, "send-on-closed", Not(Select(s.heapComp("chan.closed", SArr(SInt, SBool)), cht)))
	return x.siteHooks(s, f, in, kind, "", bind, nil)
}

func (x *Exec) chanRecv(s *State, f *Frame, in ssa.Instruction, ch Value, commaOk bool, resType types.Type, kind, sub string) (Value, []*State) {
	cht := x.scalar(ch)
	var et types.Type
	if commaOk {
		et = resType.(*types.Tuple).At(0).Type()
	} else {
		et = resType
	}
	v := s.freshValue("recv", et)
	ok := x.Ctx.Fresh("recvok", SBool)
	s.Events = append(s.Events, Event{Kind: "recv", Name: kind, Args: []Value{S(cht)}, Rets: []Value{v, S(ok)}, Instr: in})
	bind := map[string]Value{"ch": S(cht), "recv": v, "recvok": S(ok)}
	var subp *string
	if sub != "" {
		subp = &sub
	}
	forks := x.siteHooks(s, f, in, kind, "", bind, subp)
	if commaOk {
		return TupleVal{v, S(ok)}, forks
	}
	return v, forks
}

func (x *Exec) selectOp(s *State, f *Frame, in *ssa.Select) []*State {
	// result tuple: (index int, recvOk bool, r_0 T_0, ... r_n-1 T_n-1) for recv states
	tt := in.Type().(*types.Tuple)
	var out []*State
	nArms := len(in.States)
	total := nArms
	if !in.Blocking {
		total++
	}
	// evaluate channel operands first
	type armInfo struct {
		ch  *Term
		val Value
	}
	arms := make([]armInfo, nArms)
	for i, st := range in.States {
		arms[i].ch = x.scalar(x.val(s, f, st.Chan))
		if st.Send != nil {
			arms[i].val = x.val(s, f, st.Send)
		}
	}
	// pre-select hook
	pre := "pre"
	preBind := map[string]Value{}
	for i := range arms {
		// armchN: the channel operand of arm N (nil = arm disabled)
		preBind[fmt.Sprintf("armch%d", i+1)] = S(arms[i].ch)
	}
	x.siteHooks(s, f, in, "select", "", preBind, &pre)
	for i := 0; i < total; i++ {
		var si *State
		if i == total-1 {
			si = s
		} else {
			si = s.Fork()
		}
		fi := si.top()
		res := make(TupleVal, tt.Len())
		if i >= nArms {
			// default
			res[0] = S(IntLit(-1))
			res[1] = S(False)
			ri := 2
			for _, st := range in.States {
				if st.Dir == types.RecvOnly {
					res[ri] = si.zeroValue(tt.At(ri).Type())
					ri++
				}
			}
			sub := "default"
			x.siteHooks(si, fi, in, "select", "", nil, &sub)
			fi.Regs[in] = res
			fi.Idx++
			out = append(out, si)
			continue
		}
		st := in.States[i]
		// a nil channel arm is never chosen
		si.Assume(Neq(arms[i].ch, IntLit(0)))
		if si.Dead {
			continue
		}
		res[0] = S(IntLit(int64(i)))
		res[1] = S(False)
		ri := 2
		sub := fmt.Sprintf("arm%d", i+1)
		for j, stj := range in.States {
			if stj.Dir == types.RecvOnly {
				if j == i {
					// received value
					v := si.freshValue("recv", tt.At(ri).Type())
					ok := x.Ctx.Fresh("recvok", SBool)
					res[ri] = v
					res[1] = S(ok)
					si.Events = append(si.Events, Event{Kind: "recv", Name: "select", Args: []Value{S(arms[i].ch)}, Rets: []Value{v, S(ok)}, Instr: in})
					bind := map[string]Value{"ch": S(arms[i].ch), "recv": v, "recvok": S(ok)}
					x.siteHooks(si, fi, in, "select", "", bind, &sub)
				} else {
					res[ri] = si.zeroValue(tt.At(ri).Type())
				}
				ri++
			}
		}
		if st.Dir == types.SendOnly {
			si.Events = append(si.Events, Event{Kind: "send", Name: "select", Args: []Value{S(arms[i].ch), arms[i].val}, Instr: in})
			bind := map[string]Value{"ch": S(arms[i].ch), "sent": arms[i].val}
			x.siteHooks(si, fi, in, "select", "", bind, &sub)
		}
		if si.Dead {
			continue
		}
		fi.Regs[in] = res
		fi.Idx++
		out = append(out, si)
	}
	if out == nil {
		out = []*State{}
	}
	return out
}

// forkAlts continues a (non-deferred) call with one successor per alternative.
func (x *Exec) forkAlts(s *State, cc *CallCtx) []*State {
	if cc.Deferred {
		unsupported("forking model in a deferred call")
	}
	var out []*State
	for i, alt := range cc.Alts {
		st := s
		if i < len(cc.Alts)-1 {
			st = s.Fork()
		}
		v := alt(st)
		if st.Dead {
			continue
		}
		fr := st.top()
		var resv []Value
		if v != nil {
			if val, ok := cc.Instr.(ssa.Value); ok {
				fr.Regs[val] = v
			}
			resv = []Value{v}
		}
		if r := x.afterCall(st, fr, cc.Instr, resv); r != nil {
			out = append(out, r...)
			continue
		}
		fr.Idx++
		out = append(out, st)
	}
	if out == nil {
		out = []*State{}
	}
	return out
}

// pureResult builds the result of a pure external function as uninterpreted
// functions of its (scalar) arguments. Returns nil if an argument or result is
// not scalar.
func (x *Exec) pureResult(s *State, cc *CallCtx, rt *types.Tuple) Value {
	var args []*Term
	var sorts []string
	for _, a := range cc.Args {
		switch v := a.(type) {
		case *Scalar:
			args = append(args, v.T)
		case *PtrVal:
			if v.Cell != nil {
				return nil
			}
			if len(v.Path) != 0 {
				// interior pointer: a function of the object reference and the field path
				name := "addr"
				for _, pe := range v.Path {
					if pe.Index != nil {
						return nil
					}
					name += fmt.Sprintf(".%d", pe.Field)
				}
				x.Ctx.DeclareFunc(name, []string{SInt}, SInt)
				args = append(args, App(name, SInt, v.Ref))
			} else {
				args = append(args, v.Ref)
			}
		default:
			return nil
		}
		sorts = append(sorts, args[len(args)-1].Sort)
	}
	mk := func(i int, t types.Type) Value {
		if !isScalarType(t) {
			return nil
		}
		name := fmt.Sprintf("pure.%s.%d", sanitize(cc.Name), i)
		so := sortOfType(t)
		if len(args) == 0 {
			return s.unreify(Atom(name, so), t)
		}
		x.Ctx.DeclareFunc(name, sorts, so)
		term := App(name, so, args...)
		if so == SInt {
			s.Assume(Ge(term, IntLit(0)))
		}
		return s.unreify(term, t)
	}
	switch rt.Len() {
	case 0:
		return nil
	case 1:
		return mk(0, rt.At(0).Type())
	}
	tv := make(TupleVal, rt.Len())
	for i := range tv {
		v := mk(i, rt.At(i).Type())
		if v == nil {
			return nil
		}
		tv[i] = v
	}
	return tv
}

// ExternalRequires are assumed preconditions of library functions whose
// violation panics; each becomes a safety obligation at its call sites.
var ExternalRequires = map[string]func(x *Exec, s *State, cc *CallCtx) (*Term, string){}

func init() {
	ExternalRequires["go/constant.BoolVal"] = func(x *Exec, s *State, cc *CallCtx) (*Term, string) {
		v := x.scalar(cc.Args[0])
		name := "pure." + sanitize("invoke go/constant.Value.Kind") + ".0"
		x.Ctx.DeclareFunc(name, []string{SInt}, SInt)
		k := App(name, SInt, v)
		// BoolVal panics unless x is a Bool (kind 1) or Unknown (kind 0) constant; a nil Value panics
		return And(Neq(v, IntLit(0)), Or(Eq(k, IntLit(1)), Eq(k, IntLit(0)))), "constant.BoolVal-needs-bool-constant"
	}
	ExternalRequires["(*go/types.Tuple).At"] = func(x *Exec, s *State, cc *CallCtx) (*Term, string) {
		t := x.scalar(cc.Args[0])
		i := x.scalar(cc.Args[1])
		name := "pure." + sanitize("(*go/types.Tuple).Len") + ".0"
		x.Ctx.DeclareFunc(name, []string{SInt}, SInt)
		return And(Le(IntLit(0), i), Lt(i, App(name, SInt, t))), "types.Tuple.At-index-in-range"
	}
}

// externalSafety emits the safety obligations of a call into code that is not
// under contract: non-nil interface receiver, non-nil pointer receiver of an
// external method, and registered library preconditions.
func (x *Exec) externalSafety(s *State, f *Frame, cc *CallCtx) {
	if !x.Safety {
		return
	}
	c := cc.Common
	if c.IsInvoke() {
		if x.NilInterfaceSafety {
			recv := x.scalar(cc.Args[0])
			x.safety(s, f, cc.Instr, "nil-interface-method-call", Neq(recv, IntLit(0)))
		}
		return
	}
	fn, ok := c.Value.(*ssa.Function)
	if !ok {
		return
	}
	if req, ok := ExternalRequires[fn.String()]; ok {
		t, label := req(x, s, cc)
		x.safety(s, f, cc.Instr, label, t)
	}
	if fn.Signature.Recv() != nil && len(cc.Args) > 0 && x.NilReceiverPanics != nil && x.NilReceiverPanics(fn) {
		if p, ok := cc.Args[0].(*PtrVal); ok && p.Cell == nil && len(p.Path) == 0 {
			x.safety(s, f, cc.Instr, "nil-receiver", Neq(p.Ref, IntLit(0)))
		}
	}
}
