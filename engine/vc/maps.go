package vc

import (
	"go/types"
	"strings"

	"golang.org/x/tools/go/ssa"
)

// Go maps are modelled as heap objects with components
//   map.<T>#has : Array Int (Array K Bool)
//   map.<T>#val : Array Int (Array K V)
// keyed by the map reference. Keys and values are reified scalars.

func mapComp(t types.Type) string { return "map." + typeKey(t) }

func (x *Exec) mapSorts(t types.Type) (ks, vs string, mt *types.Map) {
	mt = t.Underlying().(*types.Map)
	return sortOfType(mt.Key()), sortOfType(mt.Elem()), mt
}

func (x *Exec) mapInit(s *State, id *Term, t types.Type) {
	ks, vs, _ := x.mapSorts(t)
	has := s.heapComp(mapComp(t)+"@has", SArr(SInt, SArr(ks, SBool)))
	val := s.heapComp(mapComp(t)+"@val", SArr(SInt, SArr(ks, vs)))
	s.setHeapComp(mapComp(t)+"@has", Store(has, id, ConstArray(SArr(ks, SBool), False)))
	s.setHeapComp(mapComp(t)+"@val", Store(val, id, ConstArray(SArr(ks, vs), zeroTerm(vs))))
}

func (x *Exec) mapLen(s *State, m *Term, mt *types.Map) *Term {
	ks := sortOfType(mt.Key())
	has := Select(s.heapComp(mapComp(mt)+"@has", SArr(SInt, SArr(ks, SBool))), m)
	fname := "card." + sanitize(has.Sort)
	x.Ctx.DeclareFunc(fname, []string{has.Sort}, SInt)
	return App(fname, SInt, has)
}

func (x *Exec) mapLookup(s *State, f *Frame, in *ssa.Lookup) Value {
	if _, ok := in.X.Type().Underlying().(*types.Map); !ok {
		// string index
		return s.freshValue("strindex", in.Type())
	}
	ks, vs, mt := x.mapSorts(in.X.Type())
	m := x.scalar(x.val(s, f, in.X))
	k := s.reify(x.val(s, f, in.Index), mt.Key())
	has := Select(Select(s.heapComp(mapComp(mt)+"@has", SArr(SInt, SArr(ks, SBool))), m), k)
	val := Select(Select(s.heapComp(mapComp(mt)+"@val", SArr(SInt, SArr(ks, vs))), m), k)
	v := Ite(has, val, zeroTerm(vs))
	if !isScalarType(mt.Elem()) {
		// aggregate map values are opaque
		av := s.freshValue("mapval", mt.Elem())
		if in.CommaOk {
			return TupleVal{av, S(has)}
		}
		return av
	}
	if x.MapValuesNonNil != nil && x.MapValuesNonNil(in.X.Type()) && vs == SInt {
		s.Assume(Implies(has, Neq(val, IntLit(0))))
	}
	if in.CommaOk {
		return TupleVal{s.unreify(v, mt.Elem()), S(has)}
	}
	return s.unreify(v, mt.Elem())
}

func (x *Exec) mapUpdate(s *State, f *Frame, in *ssa.MapUpdate) {
	ks, vs, mt := x.mapSorts(in.Map.Type())
	m := x.scalar(x.val(s, f, in.Map))
	x.safety(s, f, in, "nil-map-write", Neq(m, IntLit(0)))
	k := s.reify(x.val(s, f, in.Key), mt.Key())
	hasC := s.heapComp(mapComp(mt)+"@has", SArr(SInt, SArr(ks, SBool)))
	valC := s.heapComp(mapComp(mt)+"@val", SArr(SInt, SArr(ks, vs)))
	s.setHeapComp(mapComp(mt)+"@has", Store(hasC, m, Store(Select(hasC, m), k, True)))
	if isScalarType(mt.Elem()) {
		v := s.reify(x.val(s, f, in.Value), mt.Elem())
		s.setHeapComp(mapComp(mt)+"@val", Store(valC, m, Store(Select(valC, m), k, v)))
	}
}

func (x *Exec) mapDelete(s *State, mv, kv Value, t types.Type) {
	ks, _, mt := x.mapSorts(t)
	m := x.scalar(mv)
	k := s.reify(kv, mt.Key())
	hasC := s.heapComp(mapComp(mt)+"@has", SArr(SInt, SArr(ks, SBool)))
	s.setHeapComp(mapComp(mt)+"@has", Store(hasC, m, Store(Select(hasC, m), k, False)))
}

// iterator state lives in ghost-like heap components keyed by iterator id
type iterInfo struct {
	Map  *Term
	Type types.Type
}

func (x *Exec) rangeInit(s *State, f *Frame, in *ssa.Range) Value {
	mt, ok := in.X.Type().Underlying().(*types.Map)
	if !ok {
		// range over string
		id := IntLit(x.newID())
		x.iters[id.Op] = &iterInfo{Type: in.X.Type()}
		return S(id)
	}
	ks := sortOfType(mt.Key())
	id := IntLit(x.newID())
	m := x.scalar(x.val(s, f, in.X))
	x.iters[id.Op] = &iterInfo{Map: m, Type: mt}
	vis := s.heapComp("iter.visited."+ks, SArr(SInt, SArr(ks, SBool)))
	s.setHeapComp("iter.visited."+ks, Store(vis, id, ConstArray(SArr(ks, SBool), False)))
	return S(id)
}

func (x *Exec) rangeNext(s *State, f *Frame, in *ssa.Next) Value {
	it := x.scalar(x.val(s, f, in.Iter))
	info := x.iters[it.Op]
	tt := in.Type().(*types.Tuple)
	ok := x.Ctx.Fresh("next.ok", SBool)
	if info == nil || info.Map == nil {
		return TupleVal{S(ok), s.freshValue("next.k", tt.At(1).Type()), s.freshValue("next.v", tt.At(2).Type())}
	}
	mt := info.Type.(*types.Map)
	ks, vs := sortOfType(mt.Key()), sortOfType(mt.Elem())
	k := x.Ctx.Fresh("next.k", ks)
	has := Select(s.heapComp(mapComp(mt)+"@has", SArr(SInt, SArr(ks, SBool))), info.Map)
	visC := s.heapComp("iter.visited."+ks, SArr(SInt, SArr(ks, SBool)))
	vis := Select(visC, it)
	s.Assume(Implies(ok, And(Select(has, k), Not(Select(vis, k)))))
	q := Atom("q_k", ks)
	s.Assume(Implies(Not(ok), Forall([]*Term{q}, Implies(Select(has, q), Select(vis, q)))))
	s.setHeapComp("iter.visited."+ks, Store(visC, it, Store(vis, k, True)))
	var kv, vv Value
	kv = s.unreify(k, mt.Key())
	if isScalarType(mt.Elem()) {
		val := Select(Select(s.heapComp(mapComp(mt)+"@val", SArr(SInt, SArr(ks, vs))), info.Map), k)
		vv = s.unreify(val, mt.Elem())
	} else {
		vv = s.freshValue("next.v", mt.Elem())
	}
	if !isScalarType(mt.Key()) {
		kv = s.freshValue("next.k", mt.Key())
	}
	return TupleVal{S(ok), kv, vv}
}

// mapCompByType: heap component of the Go map type written as in source
// ("map[string]string"), resolved in the package of the function under contract.
func (x *Exec) mapTypedSpec(e *Env, a []Value, suffix string) Value {
	ts := exprStringOf(e, a[0])
	m := e.toTerm(a[1])
	k := e.toTerm(a[2])
	want := "map." + sanitize(ts) + suffix
	for name, comp := range e.S.Heap {
		if name == shortKey(want) {
			return S(Select(Select(comp, m), k))
		}
	}
	// component not touched yet on this path: create it with the sorts of a string/int keyed map
	sort := SArr(SInt, SArr(k.Sort, SBool))
	if suffix == "@val" {
		sort = SArr(SInt, SArr(k.Sort, SInt))
	}
	return S(Select(Select(e.S.heapComp(want, sort), m), k))
}

func exprStringOf(e *Env, v Value) string {
	if sc, ok := v.(*Scalar); ok {
		if s, ok := e.S.X.strByID(sc.T); ok {
			return s
		}
	}
	evalErr("map type must be a string literal")
	return ""
}

// RegisterMapSpecFuncs adds mapHas(m, k) / mapVal(m, k) for maps of the given type.
func (x *Exec) RegisterMapSpecFuncs() {
	// mhas("map[K]V", m, k) / mval("map[K]V", m, k): typed variants
	x.SpecFuncs["mhas"] = func(e *Env, a []Value) Value { return x.mapTypedSpec(e, a, "@has") }
	x.SpecFuncs["mval"] = func(e *Env, a []Value) Value { return x.mapTypedSpec(e, a, "@val") }
	x.SpecFuncs["mapHas"] = func(e *Env, a []Value) Value {
		m := e.toTerm(a[0])
		k := e.toTerm(a[1])
		for name, comp := range e.S.Heap {
			if strings.HasPrefix(name, "map.") && strings.HasSuffix(name, "@has") && IdxSort(ElemSort(comp.Sort)) == k.Sort {
				return S(Select(Select(comp, m), k))
			}
		}
		evalErr("mapHas: no map component with key sort %s", k.Sort)
		return nil
	}
	x.SpecFuncs["mapVal"] = func(e *Env, a []Value) Value {
		m := e.toTerm(a[0])
		k := e.toTerm(a[1])
		for name, comp := range e.S.Heap {
			if strings.HasPrefix(name, "map.") && strings.HasSuffix(name, "@val") && IdxSort(ElemSort(comp.Sort)) == k.Sort {
				return S(Select(Select(comp, m), k))
			}
		}
		evalErr("mapVal: no map component with key sort %s", k.Sort)
		return nil
	}
}
