package vc

import (
	"fmt"
	"go/ast"
	"go/constant"
	"go/token"
	"go/types"
	"strconv"
	"strings"
)

// Env is the evaluation environment of contract expressions.
type Env struct {
	S     *State
	F     *Frame
	Bound map[string]Value
	Pkg   *types.Package
	// side hypotheses generated while evaluating (e.g. card(S) >= 0)
	Side []*Term
}

func (s *State) NewEnv(f *Frame) *Env {
	var pkg *types.Package
	if f != nil && f.Fn.Pkg != nil {
		pkg = f.Fn.Pkg.Pkg
	}
	return &Env{S: s, F: f, Bound: map[string]Value{}, Pkg: pkg}
}

func (e *Env) with(name string, v Value) *Env {
	n := *e
	n.Bound = copyMap(e.Bound)
	n.Bound[name] = v
	return &n
}

type evalError struct{ msg string }

func (e *evalError) Error() string { return e.msg }

func evalErr(format string, a ...any) { panic(&evalError{fmt.Sprintf(format, a...)}) }

// EvalBool evaluates a contract condition to a Bool term.
func (e *Env) EvalBool(x ast.Expr) (t *Term, err error) {
	defer func() {
		if r := recover(); r != nil {
			switch r := r.(type) {
			case *evalError:
				err = r
			case *Unsupported:
				err = r
			default:
				panic(r)
			}
		}
	}()
	v := e.eval(x)
	sc, ok := v.(*Scalar)
	if !ok || sc.T.Sort != SBool {
		return nil, fmt.Errorf("condition is not boolean: %s", valueString(v))
	}
	return sc.T, nil
}

func (e *Env) EvalValue(x ast.Expr) (v Value, err error) {
	defer func() {
		if r := recover(); r != nil {
			switch r := r.(type) {
			case *evalError:
				err = r
			case *Unsupported:
				err = r
			default:
				panic(r)
			}
		}
	}()
	return e.eval(x), nil
}

func (e *Env) term(x ast.Expr) *Term {
	v := e.eval(x)
	return e.toTerm(v)
}

func (e *Env) toTerm(v Value) *Term {
	switch v := v.(type) {
	case *Scalar:
		return v.T
	case *PtrVal, *FuncVal:
		return e.S.reify(v, nil)
	}
	evalErr("expected scalar, got %s", valueString(v))
	return nil
}

func (e *Env) lookupIdent(name string) Value {
	if v, ok := e.Bound[name]; ok {
		return v
	}
	switch name {
	case "nil":
		return S(IntLit(0))
	case "true":
		return S(True)
	case "false":
		return S(False)
	}
	if v, ok := e.S.Ghost[name]; ok {
		return v
	}
	if e.F != nil {
		if _, ok := e.F.Vars[name]; !ok {
			if al := e.S.X.Aliases[e.F.Fn]; al != nil {
				if nn, ok := al[name]; ok {
					name = nn
				}
			}
		}
		if v, ok := e.F.Vars[name]; ok {
			if e.F.VarAddr[name] {
				return e.S.Load(v.(*PtrVal))
			}
			return v
		}
	}
	// package-level: globals and constants
	if e.Pkg != nil {
		if obj := e.Pkg.Scope().Lookup(name); obj != nil {
			switch o := obj.(type) {
			case *types.Const:
				return e.S.X.constValue(o.Val(), o.Type())
			case *types.Var:
				return e.S.Load(e.S.X.globalPtr(o))
			}
		}
	}
	evalErr("unknown identifier %q", name)
	return nil
}

func (e *Env) eval(x ast.Expr) Value {
	switch x := x.(type) {
	case *ast.ParenExpr:
		return e.eval(x.X)
	case *ast.Ident:
		return e.lookupIdent(x.Name)
	case *ast.BasicLit:
		switch x.Kind {
		case token.INT:
			n, err := strconv.ParseInt(x.Value, 0, 64)
			if err != nil {
				evalErr("bad int %s", x.Value)
			}
			return S(IntLit(n))
		case token.STRING:
			s, _ := strconv.Unquote(x.Value)
			return S(e.S.X.stringConst(s))
		}
		evalErr("unsupported literal %s", x.Value)
	case *ast.UnaryExpr:
		switch x.Op {
		case token.NOT:
			return S(Not(e.term(x.X)))
		case token.SUB:
			return S(Sub(IntLit(0), e.term(x.X)))
		case token.AND:
			if id, ok := x.X.(*ast.Ident); ok && e.F != nil {
				name := id.Name
				if _, ok := e.F.Vars[name]; !ok {
					// same (type, ordinal) fall-back as a plain use of the name: a renamed local still binds
					if al := e.S.X.Aliases[e.F.Fn]; al != nil {
						if nn, ok := al[name]; ok {
							name = nn
						}
					}
				}
				if v, ok := e.F.Vars[name]; ok && e.F.VarAddr[name] {
					return v
				}
			}
			evalErr("& of something that is not an addressable local")
		}
		evalErr("unsupported unary %s", x.Op)
	case *ast.StarExpr:
		v := e.eval(x.X)
		p, ok := v.(*PtrVal)
		if !ok {
			evalErr("deref of non-pointer")
		}
		return e.S.Load(p)
	case *ast.BinaryExpr:
		return e.evalBinary(x)
	case *ast.SelectorExpr:
		// qualified package identifier?
		if id, ok := x.X.(*ast.Ident); ok {
			if _, isBound := e.Bound[id.Name]; !isBound {
				if pkg := e.importedPkg(id.Name); pkg != nil {
					obj := pkg.Scope().Lookup(x.Sel.Name)
					switch o := obj.(type) {
					case *types.Const:
						return e.S.X.constValue(o.Val(), o.Type())
					case *types.Var:
						return e.S.Load(e.S.X.globalPtr(o))
					}
					evalErr("unknown %s.%s", id.Name, x.Sel.Name)
				}
			}
		}
		base := e.eval(x.X)
		return e.field(base, x.Sel.Name)
	case *ast.IndexExpr:
		base := e.eval(x.X)
		switch b := base.(type) {
		case *SliceVal:
			sl := e.S.sliceSnapshot(b)
			return e.S.unreify(Select(sl.Arr, e.term(x.Index)), b.Elem)
		case *ArrayVal:
			return e.S.unreify(Select(b.Arr, e.term(x.Index)), b.Elem)
		case *Scalar:
			if strings.HasPrefix(b.T.Sort, "(Array") {
				return S(Select(b.T, e.term(x.Index)))
			}
		}
		evalErr("index of %s", valueString(base))
	case *ast.CallExpr:
		return e.evalCall(x)
	}
	evalErr("unsupported expression %T", x)
	return nil
}

func (e *Env) importedPkg(name string) *types.Package {
	if e.Pkg == nil {
		return nil
	}
	for _, imp := range e.Pkg.Imports() {
		if imp.Name() == name {
			return imp
		}
	}
	return nil
}

func (e *Env) field(base Value, name string) Value {
	switch b := base.(type) {
	case *StructVal:
		for i := 0; i < b.Typ.NumFields(); i++ {
			if b.Typ.Field(i).Name() == name {
				return b.Fields[i]
			}
		}
		evalErr("no field %s", name)
	case *PtrVal:
		st, ok := b.Typ.Underlying().(*types.Struct)
		if !ok {
			evalErr("field %s of pointer to non-struct %s", name, b.Typ)
		}
		for i := 0; i < st.NumFields(); i++ {
			if st.Field(i).Name() == name {
				np := *b
				np.Path = append(append([]PathElem(nil), b.Path...), PathElem{Field: i})
				np.Typ = st.Field(i).Type()
				return e.S.Load(&np)
			}
		}
		evalErr("no field %s in %s", name, b.Typ)
	}
	evalErr("field %s of %s", name, valueString(base))
	return nil
}

func (e *Env) evalBinary(x *ast.BinaryExpr) Value {
	switch x.Op {
	case token.LAND:
		return S(And(e.term(x.X), e.term(x.Y)))
	case token.LOR:
		return S(Or(e.term(x.X), e.term(x.Y)))
	}
	l, r := e.eval(x.X), e.eval(x.Y)
	switch x.Op {
	case token.EQL:
		return S(e.S.valueEq(l, r))
	case token.NEQ:
		return S(Not(e.S.valueEq(l, r)))
	}
	a, b := e.toTerm(l), e.toTerm(r)
	switch x.Op {
	case token.ADD:
		if a.Sort == SString {
			return S(App("str.++", SString, a, b))
		}
		return S(Add(a, b))
	case token.SUB:
		return S(Sub(a, b))
	case token.MUL:
		return S(Mul(a, b))
	case token.LSS:
		return S(Lt(a, b))
	case token.LEQ:
		return S(Le(a, b))
	case token.GTR:
		return S(Gt(a, b))
	case token.GEQ:
		return S(Ge(a, b))
	}
	evalErr("unsupported binary %s", x.Op)
	return nil
}

// ghostSort maps a ghost type expression to an SMT sort.
func ghostSort(t string) string {
	t = strings.TrimSpace(t)
	switch {
	case t == "int" || t == "ref" || t == "error" || t == "any":
		return SInt
	case t == "string":
		if StringTheory {
			return SString
		}
		return SInt
	case t == "bool":
		return SBool
	case strings.HasPrefix(t, "set["):
		inner := t[4 : len(t)-1]
		return SArr(ghostSort(inner), SBool)
	case strings.HasPrefix(t, "map["):
		depth := 0
		for i := 3; i < len(t); i++ {
			switch t[i] {
			case '[':
				depth++
			case ']':
				depth--
				if depth == 0 {
					return SArr(ghostSort(t[4:i]), ghostSort(t[i+1:]))
				}
			}
		}
	case strings.HasPrefix(t, "seq["):
		inner := t[4 : len(t)-1]
		return SArr(SInt, ghostSort(inner))
	case strings.HasPrefix(t, "slice["):
		// a ghost copy of a Go slice value (held as a *SliceVal)
		inner := t[6 : len(t)-1]
		return "slice:" + ghostSort(inner)
	}
	panic("unknown ghost type " + t)
}

func (e *Env) boundVar(name string, typ ast.Expr) (Value, *Term) {
	tn := ""
	switch t := typ.(type) {
	case *ast.Ident:
		tn = t.Name
	case *ast.StarExpr:
		if id, ok := t.X.(*ast.Ident); ok {
			tn = id.Name
		}
	}
	switch tn {
	case "int", "ref", "error", "any":
		a := Atom("q_"+name, SInt)
		return S(a), a
	case "string":
		a := Atom("q_"+name, sortOfType(types.Typ[types.String]))
		return S(a), a
	case "bool":
		a := Atom("q_"+name, SBool)
		return S(a), a
	}
	if e.Pkg != nil {
		if obj := e.Pkg.Scope().Lookup(tn); obj != nil {
			if tnm, ok := obj.(*types.TypeName); ok {
				a := Atom("q_"+name, SInt)
				return &PtrVal{Ref: a, Base: tnm.Type(), Typ: tnm.Type()}, a
			}
		}
	}
	evalErr("unknown quantifier type %q", tn)
	return nil, nil
}

func (e *Env) evalCall(x *ast.CallExpr) Value {
	fn, ok := x.Fun.(*ast.Ident)
	if !ok {
		evalErr("unsupported call in contract")
	}
	args := x.Args
	need := func(n int) {
		if len(args) != n {
			evalErr("%s wants %d arguments", fn.Name, n)
		}
	}
	switch fn.Name {
	case "implies":
		need(2)
		return S(Implies(e.term(args[0]), e.term(args[1])))
	case "iff":
		need(2)
		return S(Eq(e.term(args[0]), e.term(args[1])))
	case "ite":
		need(3)
		c := e.term(args[0])
		a, b := e.eval(args[1]), e.eval(args[2])
		return S(Ite(c, e.toTerm(a), e.toTerm(b)))
	case "forall", "exists":
		need(3)
		id, ok := args[0].(*ast.Ident)
		if !ok {
			evalErr("%s: first argument must be an identifier", fn.Name)
		}
		bv, atom := e.boundVar(id.Name, args[1])
		body := e.with(id.Name, bv)
		body.Side = nil
		t := body.term(args[2])
		// side facts are valid formulas; those that mention the bound
		// variable are closed universally before they leave its scope
		for _, sd := range body.Side {
			if mentionsAtom(sd, atom.Op) {
				sd = Forall([]*Term{atom}, sd)
			}
			e.Side = append(e.Side, sd)
		}
		if fn.Name == "forall" {
			return S(Forall([]*Term{atom}, t))
		}
		return S(Exists([]*Term{atom}, t))
	case "old":
		need(1)
		return e.evalOld(args[0])
	case "len":
		need(1)
		v := e.eval(args[0])
		switch v := v.(type) {
		case *SliceVal:
			return S(v.Len)
		case *ArrayVal:
			return S(IntLit(v.N))
		}
		evalErr("len of %s", valueString(v))
	case "cap":
		need(1)
		v := e.eval(args[0])
		switch v := v.(type) {
		case *SliceVal:
			return S(v.Cap)
		case *Scalar: // channel
			return S(Select(e.S.heapComp("chan.cap", SArr(SInt, SInt)), v.T))
		}
		evalErr("cap of %s", valueString(v))
	case "closed":
		need(1)
		return S(Select(e.S.heapComp("chan.closed", SArr(SInt, SBool)), e.term(args[0])))
	case "in":
		need(2)
		return S(Select(e.term(args[1]), e.term(args[0])))
	case "add":
		need(2)
		set := e.term(args[0])
		el := e.term(args[1])
		return S(Store(set, el, True))
	case "remove":
		need(2)
		set := e.term(args[0])
		el := e.term(args[1])
		return S(Store(set, el, False))
	case "store":
		need(3)
		return S(Store(e.term(args[0]), e.term(args[1]), e.term(args[2])))
	case "empty":
		need(1)
		sort := ghostSort(exprString(args[0]))
		return S(ConstArray(sort, zeroTerm(ElemSort(sort))))
	case "card":
		need(1)
		set := e.term(args[0])
		fname := "card." + sanitize(set.Sort)
		e.S.X.Ctx.DeclareFunc(fname, []string{set.Sort}, SInt)
		c := App(fname, SInt, set)
		e.Side = append(e.Side, Ge(c, IntLit(0)))
		// finite-set facts: card 0 <=> empty
		el := Atom("q_el", IdxSort(set.Sort))
		empty := Forall([]*Term{el}, Not(Select(set, el)))
		e.Side = append(e.Side, Eq(Eq(c, IntLit(0)), empty))
		return S(c)
	case "typeof":
		need(1)
		return S(e.S.X.typeOfTerm(e.term(args[0])))
	case "typeid":
		need(1)
		// typeid("go.uber.org/cff.PanicError*") by name
		a0 := args[0]
		for {
			pe, isP := a0.(*ast.ParenExpr)
			if !isP {
				break
			}
			a0 = pe.X
		}
		lit, ok := a0.(*ast.BasicLit)
		if !ok {
			evalErr("typeid wants a string literal")
		}
		name, _ := strconv.Unquote(lit.Value)
		return S(IntLit(e.S.X.typeIDByName(name)))
	case "dataof":
		need(1)
		return S(e.S.X.dataOfTerm(e.term(args[0])))
	case "boxed":
		// boxed("T", v): the interface value that holds v with dynamic type T
		// (what a conversion of v to an interface type produces)
		need(2)
		lit, ok := args[0].(*ast.BasicLit)
		if !ok {
			evalErr("boxed wants a type name string literal")
		}
		name, _ := strconv.Unquote(lit.Value)
		return S(App("box", SInt, IntLit(e.S.X.typeIDByName(name)), e.term(args[1])))
	case "ptr":
		// ptr(TypeName, term): view an Int as pointer to named struct
		need(2)
		id, _ := args[0].(*ast.Ident)
		if id == nil {
			evalErr("ptr wants a type name")
		}
		t := e.term(args[1])
		if obj := e.Pkg.Scope().Lookup(id.Name); obj != nil {
			if tn, ok := obj.(*types.TypeName); ok {
				return &PtrVal{Ref: t, Base: tn.Type(), Typ: tn.Type()}
			}
		}
		evalErr("ptr: unknown type %s", id.Name)
	case "heap":
		// heap("Comp", ref): raw heap component read
		need(2)
		lit, ok := args[0].(*ast.BasicLit)
		if !ok {
			evalErr("heap wants a string literal")
		}
		name, _ := strconv.Unquote(lit.Value)
		sort := SArr(SInt, SInt)
		if t, ok := e.S.Heap[shortKey(name)]; ok {
			sort = t.Sort
		}
		return S(Select(e.S.heapComp(name, sort), e.term(args[1])))
	case "pure":
		// pure("canonical callee name", args...): the uninterpreted function
		// that models a pure external function
		if len(args) < 1 {
			evalErr("pure wants a name")
		}
		a0 := args[0]
		for {
			pe, isP := a0.(*ast.ParenExpr)
			if !isP {
				break
			}
			a0 = pe.X
		}
		lit, ok := a0.(*ast.BasicLit)
		if !ok {
			evalErr("pure wants a string literal")
		}
		name, _ := strconv.Unquote(lit.Value)
		var ts []*Term
		var sorts []string
		for _, a := range args[1:] {
			t := e.term(a)
			ts = append(ts, t)
			sorts = append(sorts, t.Sort)
		}
		fname := "pure." + sanitize(name) + ".0"
		e.S.X.Ctx.DeclareFunc(fname, sorts, SInt)
		pt := App(fname, SInt, ts...)
		// same typing fact pureResult assumes at call sites: identities and lengths are non-negative
		e.Side = append(e.Side, Ge(pt, IntLit(0)))
		return S(pt)
	case "addr0", "addr1", "addr2", "addr3", "addr4", "addr5":
		// addrN(ref): the interior pointer to field N of object ref, as passed to pure
		// library accessors (see pureResult)
		need(1)
		name := "addr." + fn.Name[4:]
		e.S.X.Ctx.DeclareFunc(name, []string{SInt}, SInt)
		return S(App(name, SInt, e.term(args[0])))
	case "evcount":
		// evcount("kind", "name"): number of matching events on the path
		need(2)
		k, _ := strconv.Unquote(args[0].(*ast.BasicLit).Value)
		n, _ := strconv.Unquote(args[1].(*ast.BasicLit).Value)
		cnt := 0
		for _, ev := range e.S.Events {
			if ev.Kind == k && (n == "" || strings.Contains(ev.Name, n)) {
				cnt++
			}
		}
		return S(IntLit(int64(cnt)))
	}
	// user-defined spec functions registered on the executor
	if sf, ok := e.S.X.SpecFuncs[fn.Name]; ok {
		var vals []Value
		for _, a := range args {
			vals = append(vals, e.eval(a))
		}
		return sf(e, vals)
	}
	evalErr("unknown contract function %q", fn.Name)
	return nil
}

func exprString(x ast.Expr) string {
	switch x := x.(type) {
	case *ast.Ident:
		return x.Name
	case *ast.BasicLit:
		s, err := strconv.Unquote(x.Value)
		if err == nil {
			return s
		}
		return x.Value
	case *ast.IndexExpr:
		return exprString(x.X) + "[" + exprString(x.Index) + "]"
	case *ast.SelectorExpr:
		return exprString(x.X) + "." + x.Sel.Name
	}
	return fmt.Sprintf("%T", x)
}

// evalOld evaluates an expression in the function-entry state: entry heap,
// entry cells, entry values of parameters.
func (e *Env) evalOld(x ast.Expr) Value {
	s2 := *e.S
	s2.Heap = copyMap(e.S.Old)
	// components touched later but never read at entry resolve to their H0 atom
	for k, v := range e.S.Heap {
		if _, ok := s2.Heap[k]; !ok {
			s2.Heap[k] = compAtom(k, v.Sort, epochOf(e.S.OldEpoch, k))
		}
	}
	// components first read while evaluating old(...) belong to the snapshot's epochs
	s2.Epoch = e.S.OldEpoch
	s2.Old, s2.OldEpoch = nil, nil
	cells := copyMap(e.S.Cells)
	for c, v := range e.S.OldCells {
		cells[c] = v
	}
	s2.Cells = cells
	n := *e
	n.S = &s2
	if e.F != nil && e.F.EntryArgs != nil {
		f2 := *e.F
		f2.Vars = copyMap(e.F.Vars)
		f2.VarAddr = copyMap(e.F.VarAddr)
		for i, p := range e.F.Fn.Params {
			f2.Vars[p.Name()] = e.F.EntryArgs[i]
			f2.VarAddr[p.Name()] = false
		}
		n.F = &f2
	}
	v := n.eval(x)
	e.Side = append(e.Side, n.Side...)
	return v
}

func (x *Exec) constValue(c constant.Value, typ types.Type) Value {
	switch c.Kind() {
	case constant.Bool:
		return S(BoolLit(constant.BoolVal(c)))
	case constant.Int:
		if n, ok := constant.Int64Val(c); ok {
			return S(IntLit(n))
		}
		// large unsigned constants
		return S(Atom("bigconst_"+sanitize(c.ExactString()), SInt))
	case constant.String:
		return S(x.stringConst(constant.StringVal(c)))
	case constant.Float:
		return S(Atom("float_"+sanitize(c.ExactString()), SInt))
	}
	unsupported("constant kind %v", c.Kind())
	return nil
}

func mentionsAtom(t *Term, name string) bool {
	if t.Bound != nil {
		for _, b := range t.Bound {
			if b.Op == name {
				return false
			}
		}
		return mentionsAtom(t.Args[0], name)
	}
	if len(t.Args) == 0 {
		return t.Op == name
	}
	for _, a := range t.Args {
		if mentionsAtom(a, name) {
			return true
		}
	}
	return false
}
