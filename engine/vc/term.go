// Package vc is the verification-condition generator of cffvc: a symbolic
// executor over go/ssa with loop cut points, call contracts, defers/panics and
// rely/guarantee channel hooks, emitting SMT-LIB2 obligations.
package vc

import (
	"fmt"
	"sort"
	"strconv"
	"strings"
)

// Sorts are SMT-LIB sort strings. Scalars are Int or Bool; arrays nest.
const (
	SInt  = "Int"
	SBool = "Bool"
)

func SArr(idx, elem string) string { return "(Array " + idx + " " + elem + ")" }

// Term is an SMT term tree.
type Term struct {
	Op   string // atom name / numeral / operator / "forall" / "exists"
	Args []*Term
	Sort string
	// for quantifiers
	Bound []*Term
}

func (t *Term) IsAtom() bool { return len(t.Args) == 0 && t.Bound == nil }

func (t *Term) String() string {
	var sb strings.Builder
	t.write(&sb)
	return sb.String()
}

func (t *Term) write(sb *strings.Builder) {
	if t.Bound != nil {
		sb.WriteString("(")
		sb.WriteString(t.Op)
		sb.WriteString(" (")
		for i, b := range t.Bound {
			if i > 0 {
				sb.WriteString(" ")
			}
			sb.WriteString("(" + b.Op + " " + b.Sort + ")")
		}
		sb.WriteString(") ")
		t.Args[0].write(sb)
		sb.WriteString(")")
		return
	}
	if len(t.Args) == 0 {
		if t.Sort == SInt && strings.HasPrefix(t.Op, "-") {
			sb.WriteString("(- " + t.Op[1:] + ")")
			return
		}
		sb.WriteString(t.Op)
		return
	}
	sb.WriteString("(")
	sb.WriteString(t.Op)
	for _, a := range t.Args {
		sb.WriteString(" ")
		a.write(sb)
	}
	sb.WriteString(")")
}

var (
	True  = &Term{Op: "true", Sort: SBool}
	False = &Term{Op: "false", Sort: SBool}
)

func IntLit(n int64) *Term { return &Term{Op: strconv.FormatInt(n, 10), Sort: SInt} }

func (t *Term) IsTrue() bool  { return t.Op == "true" && len(t.Args) == 0 }
func (t *Term) IsFalse() bool { return t.Op == "false" && len(t.Args) == 0 }

// IntVal returns the numeral value if t is an integer literal.
func (t *Term) IntVal() (int64, bool) {
	if t.Sort != SInt || len(t.Args) != 0 || t.Bound != nil {
		return 0, false
	}
	n, err := strconv.ParseInt(t.Op, 10, 64)
	if err != nil {
		return 0, false
	}
	return n, true
}

func BoolLit(b bool) *Term {
	if b {
		return True
	}
	return False
}

func Atom(name, sort string) *Term { return &Term{Op: name, Sort: sort} }

func App(op, sort string, args ...*Term) *Term {
	for _, a := range args {
		if a == nil {
			panic("nil term arg to " + op)
		}
	}
	return &Term{Op: op, Sort: sort, Args: args}
}

func Equal(a, b *Term) bool {
	if a == b {
		return true
	}
	if a.Op != b.Op || len(a.Args) != len(b.Args) || len(a.Bound) != len(b.Bound) || a.Sort != b.Sort {
		return false
	}
	for i := range a.Bound {
		if !Equal(a.Bound[i], b.Bound[i]) {
			return false
		}
	}
	for i := range a.Args {
		if !Equal(a.Args[i], b.Args[i]) {
			return false
		}
	}
	return true
}

func Not(a *Term) *Term {
	if a.IsTrue() {
		return False
	}
	if a.IsFalse() {
		return True
	}
	if a.Op == "not" && len(a.Args) == 1 {
		return a.Args[0]
	}
	return App("not", SBool, a)
}

func And(ts ...*Term) *Term {
	var out []*Term
	for _, t := range ts {
		if t.IsTrue() {
			continue
		}
		if t.IsFalse() {
			return False
		}
		if t.Op == "and" && t.Bound == nil {
			out = append(out, t.Args...)
			continue
		}
		out = append(out, t)
	}
	switch len(out) {
	case 0:
		return True
	case 1:
		return out[0]
	}
	return App("and", SBool, out...)
}

func Or(ts ...*Term) *Term {
	var out []*Term
	for _, t := range ts {
		if t.IsFalse() {
			continue
		}
		if t.IsTrue() {
			return True
		}
		out = append(out, t)
	}
	switch len(out) {
	case 0:
		return False
	case 1:
		return out[0]
	}
	return App("or", SBool, out...)
}

func Implies(a, b *Term) *Term {
	if a.IsTrue() {
		return b
	}
	if a.IsFalse() || b.IsTrue() {
		return True
	}
	return App("=>", SBool, a, b)
}

func Eq(a, b *Term) *Term {
	if a.Sort != b.Sort {
		panic(fmt.Sprintf("Eq sort mismatch: %s:%s vs %s:%s", a, a.Sort, b, b.Sort))
	}
	if Equal(a, b) {
		return True
	}
	if x, ok := a.IntVal(); ok {
		if y, ok := b.IntVal(); ok {
			return BoolLit(x == y)
		}
	}
	if a.Sort == SBool {
		if a.IsTrue() {
			return b
		}
		if b.IsTrue() {
			return a
		}
		if a.IsFalse() {
			return Not(b)
		}
		if b.IsFalse() {
			return Not(a)
		}
	}
	return App("=", SBool, a, b)
}

func Neq(a, b *Term) *Term { return Not(Eq(a, b)) }

func Ite(c, a, b *Term) *Term {
	if c.IsTrue() {
		return a
	}
	if c.IsFalse() {
		return b
	}
	if Equal(a, b) {
		return a
	}
	if a.Sort != b.Sort {
		panic(fmt.Sprintf("Ite sort mismatch %s vs %s", a.Sort, b.Sort))
	}
	return App("ite", a.Sort, c, a, b)
}

func arith(op string, a, b *Term, f func(x, y int64) int64) *Term {
	if x, ok := a.IntVal(); ok {
		if y, ok := b.IntVal(); ok {
			return IntLit(f(x, y))
		}
	}
	return App(op, SInt, a, b)
}

func Add(a, b *Term) *Term {
	if y, ok := b.IntVal(); ok && y == 0 {
		return a
	}
	if x, ok := a.IntVal(); ok && x == 0 {
		return b
	}
	return arith("+", a, b, func(x, y int64) int64 { return x + y })
}
func Sub(a, b *Term) *Term {
	if y, ok := b.IntVal(); ok && y == 0 {
		return a
	}
	return arith("-", a, b, func(x, y int64) int64 { return x - y })
}
func Mul(a, b *Term) *Term { return arith("*", a, b, func(x, y int64) int64 { return x * y }) }

func cmp(op string, a, b *Term, f func(x, y int64) bool) *Term {
	if x, ok := a.IntVal(); ok {
		if y, ok := b.IntVal(); ok {
			return BoolLit(f(x, y))
		}
	}
	return App(op, SBool, a, b)
}
func Lt(a, b *Term) *Term { return cmp("<", a, b, func(x, y int64) bool { return x < y }) }
func Le(a, b *Term) *Term { return cmp("<=", a, b, func(x, y int64) bool { return x <= y }) }
func Gt(a, b *Term) *Term { return Lt(b, a) }
func Ge(a, b *Term) *Term { return Le(b, a) }

// ElemSort returns the element sort of an array sort "(Array I E)".
func ElemSort(arr string) string {
	_, e := splitArr(arr)
	return e
}
func IdxSort(arr string) string {
	i, _ := splitArr(arr)
	return i
}

func splitArr(s string) (string, string) {
	if !strings.HasPrefix(s, "(Array ") {
		panic("not an array sort: " + s)
	}
	body := s[len("(Array ") : len(s)-1]
	// first component: either atom or parenthesised
	depth := 0
	for i := 0; i < len(body); i++ {
		switch body[i] {
		case '(':
			depth++
		case ')':
			depth--
		case ' ':
			if depth == 0 {
				return body[:i], body[i+1:]
			}
		}
	}
	panic("bad array sort: " + s)
}

func Select(arr, idx *Term) *Term {
	// select over store simplification with syntactically equal / distinct literal index
	for arr.Op == "store" && len(arr.Args) == 3 {
		if Equal(arr.Args[1], idx) {
			return arr.Args[2]
		}
		x, ok1 := arr.Args[1].IntVal()
		y, ok2 := idx.IntVal()
		if ok1 && ok2 && x != y {
			arr = arr.Args[0]
			continue
		}
		break
	}
	if arr.Op == "const-array" {
		return arr.Args[0]
	}
	return App("select", ElemSort(arr.Sort), arr, idx)
}

func Store(arr, idx, v *Term) *Term {
	if ElemSort(arr.Sort) != v.Sort {
		panic(fmt.Sprintf("Store sort mismatch: arr %s elem %s", arr.Sort, v.Sort))
	}
	return App("store", arr.Sort, arr, idx, v)
}

// ConstArray builds ((as const S) v); printed specially.
func ConstArray(sort string, v *Term) *Term {
	return &Term{Op: "const-array", Sort: sort, Args: []*Term{v}}
}

func Forall(bound []*Term, body *Term) *Term {
	if body.IsTrue() {
		return True
	}
	return &Term{Op: "forall", Sort: SBool, Bound: bound, Args: []*Term{body}}
}
func Exists(bound []*Term, body *Term) *Term {
	if body.IsFalse() {
		return False
	}
	return &Term{Op: "exists", Sort: SBool, Bound: bound, Args: []*Term{body}}
}

// Symbols collects free atom names (non-literal, non-bound) with sorts, and
// applied function symbols.
func (t *Term) Symbols(atoms map[string]string, funcs map[string]bool) {
	t.symbols(atoms, funcs, map[string]bool{})
}

var builtinOps = map[string]bool{
	"and": true, "or": true, "not": true, "=>": true, "=": true, "ite": true,
	"+": true, "-": true, "*": true, "<": true, "<=": true, ">": true, ">=": true,
	"select": true, "store": true, "const-array": true, "div": true, "mod": true,
	"distinct": true, "true": true, "false": true, "!": true,
	"str.++": true, "str.len": true, "str.suffixof": true, "str.prefixof": true, "str.substr": true,
	"str.contains": true, "str.indexof": true, "str.<": true, "str.replace": true, "str.at": true,
}

func (t *Term) symbols(atoms map[string]string, funcs map[string]bool, bound map[string]bool) {
	if t.Bound != nil {
		nb := map[string]bool{}
		for k := range bound {
			nb[k] = true
		}
		for _, b := range t.Bound {
			nb[b.Op] = true
		}
		t.Args[0].symbols(atoms, funcs, nb)
		return
	}
	if len(t.Args) == 0 {
		if _, ok := t.IntVal(); ok {
			return
		}
		if t.Op == "true" || t.Op == "false" || strings.HasPrefix(t.Op, "\"") {
			return
		}
		if bound[t.Op] {
			return
		}
		atoms[t.Op] = t.Sort
		return
	}
	if !builtinOps[t.Op] {
		funcs[t.Op] = true
	}
	for _, a := range t.Args {
		a.symbols(atoms, funcs, bound)
	}
}

// Subst substitutes atoms by name.
func (t *Term) Subst(m map[string]*Term) *Term {
	if len(m) == 0 {
		return t
	}
	if t.Bound != nil {
		m2 := m
		for _, b := range t.Bound {
			if _, ok := m[b.Op]; ok {
				if &m2 == &m || len(m2) == len(m) {
					m2 = map[string]*Term{}
					for k, v := range m {
						m2[k] = v
					}
				}
				delete(m2, b.Op)
			}
		}
		return &Term{Op: t.Op, Sort: t.Sort, Bound: t.Bound, Args: []*Term{t.Args[0].Subst(m2)}}
	}
	if len(t.Args) == 0 {
		if r, ok := m[t.Op]; ok {
			return r
		}
		return t
	}
	args := make([]*Term, len(t.Args))
	changed := false
	for i, a := range t.Args {
		args[i] = a.Subst(m)
		if args[i] != a {
			changed = true
		}
	}
	if !changed {
		return t
	}
	return &Term{Op: t.Op, Sort: t.Sort, Args: args}
}

func smtString(t *Term) string {
	// const-array needs special printing
	var sb strings.Builder
	writeSMT(t, &sb)
	return sb.String()
}

func writeSMT(t *Term, sb *strings.Builder) {
	if t.Op == "const-array" {
		sb.WriteString("((as const " + t.Sort + ") ")
		writeSMT(t.Args[0], sb)
		sb.WriteString(")")
		return
	}
	if t.Bound != nil {
		sb.WriteString("(" + t.Op + " (")
		for i, b := range t.Bound {
			if i > 0 {
				sb.WriteString(" ")
			}
			sb.WriteString("(" + b.Op + " " + b.Sort + ")")
		}
		sb.WriteString(") ")
		writeSMT(t.Args[0], sb)
		sb.WriteString(")")
		return
	}
	if len(t.Args) == 0 {
		if n, ok := t.IntVal(); ok && n < 0 {
			sb.WriteString("(- " + strconv.FormatInt(-n, 10) + ")")
			return
		}
		sb.WriteString(t.Op)
		return
	}
	sb.WriteString("(" + t.Op)
	for _, a := range t.Args {
		sb.WriteString(" ")
		writeSMT(a, sb)
	}
	sb.WriteString(")")
}

func sortedKeys[V any](m map[string]V) []string {
	ks := make([]string, 0, len(m))
	for k := range m {
		ks = append(ks, k)
	}
	sort.Strings(ks)
	return ks
}
