package vc

import (
	"go/ast"
	"go/types"
	"sort"

	"golang.org/x/tools/go/packages"
	"golang.org/x/tools/go/ssa"
)

// Binding robustness: contracts name locals; a harmless rename must not turn
// into an alarm. The reference tree's locals are recorded as
// (name, type, ordinal among same-typed locals in declaration order); when a
// contract identifier no longer exists in the function, the local with the
// same (type, ordinal) whose name is new is used instead.

type VarBinding struct {
	Name string `json:"name"`
	Type string `json:"type"`
	Ord  int    `json:"ord"`
}

// LocalsOf lists the named parameters, results and locals of fn (including
// nested function literals' variables are excluded) in declaration order.
func LocalsOf(fn *ssa.Function, pkgs []*packages.Package) []VarBinding {
	syn := fn.Syntax()
	if syn == nil {
		return nil
	}
	var info *types.Info
	packages.Visit(pkgs, nil, func(p *packages.Package) {
		if fn.Pkg != nil && p.Types == fn.Pkg.Pkg {
			info = p.TypesInfo
		}
		if fn.Pkg == nil {
			for par := fn.Parent(); par != nil; par = par.Parent() {
				if par.Pkg != nil && p.Types == par.Pkg.Pkg {
					info = p.TypesInfo
				}
			}
		}
	})
	if info == nil {
		return nil
	}
	type dv struct {
		v   *types.Var
		pos int
	}
	var vars []dv
	var body ast.Node = syn
	ast.Inspect(body, func(n ast.Node) bool {
		if lit, ok := n.(*ast.FuncLit); ok && n != syn {
			_ = lit
			return false // nested literals have their own contracts
		}
		id, ok := n.(*ast.Ident)
		if !ok {
			return true
		}
		if obj, ok := info.Defs[id].(*types.Var); ok && obj != nil && !obj.IsField() && id.Name != "_" {
			vars = append(vars, dv{obj, int(id.Pos())})
		}
		return true
	})
	sort.Slice(vars, func(i, j int) bool { return vars[i].pos < vars[j].pos })
	count := map[string]int{}
	var out []VarBinding
	for _, v := range vars {
		ts := types.TypeString(v.v.Type(), nil)
		out = append(out, VarBinding{Name: v.v.Name(), Type: ts, Ord: count[ts]})
		count[ts]++
	}
	return out
}

// Aliases maps reference names that disappeared to the current name at the
// same (type, ordinal).
func Aliases(ref, cur []VarBinding) map[string]string {
	curNames := map[string]bool{}
	for _, c := range cur {
		curNames[c.Name] = true
	}
	refNames := map[string]bool{}
	for _, r := range ref {
		refNames[r.Name] = true
	}
	out := map[string]string{}
	for _, r := range ref {
		if curNames[r.Name] {
			continue
		}
		for _, c := range cur {
			if c.Type == r.Type && c.Ord == r.Ord && !refNames[c.Name] {
				if _, dup := out[r.Name]; !dup {
					out[r.Name] = c.Name
				}
			}
		}
	}
	return out
}
