package vc

import (
	"crypto/sha1"
	"fmt"
	"sort"
	"strings"
	"sync"

	"golang.org/x/tools/go/ssa"
)

// Instance is one (path, clause) proof obligation.
type Instance struct {
	Name   string
	Clause *Clause
	Hyps   []*Term
	Goal   *Term
	Trace  []string
	Pos    string
	Events []string
	Vacuity bool
	Result *SolveResult
}

// ObResult aggregates the instances of one named obligation.
type ObResult struct {
	Name       string   `json:"name"`
	Props      []string `json:"props,omitempty"`
	Kind       string   `json:"kind"`
	Func       string   `json:"func"`
	Text       string   `json:"text,omitempty"`
	Instances  int      `json:"instances"`
	Discharged int      `json:"discharged"`
	Status     string   `json:"status"` // discharged | violated | undecided | vacuous
	Backends   map[string]int `json:"backends"`
	Seconds    float64  `json:"solver_seconds"`
	Model      string   `json:"model,omitempty"`
	Detail     string   `json:"detail,omitempty"`
	FailTrace  []string `json:"fail_trace,omitempty"`
	FailPos    string   `json:"fail_pos,omitempty"`
	FailQuery  string   `json:"-"`
	FailEvents []string `json:"fail_events,omitempty"`
	// Failures lists every failing instance by its witness (the instance,
	// input or site it is about), so that known findings can be matched
	// per instance.
	Failures []Failure `json:"failures,omitempty"`
}

type Failure struct {
	Witness string `json:"witness"`
	Status  string `json:"status"`
}

// Sink collects obligations of a pass.
type Sink struct {
	mu        sync.Mutex
	Pass      string
	Instances []*Instance
	Assumed   map[string]bool
	Ungenerated map[string]string // function -> reason
	Functions map[string]bool
	Cover     map[string]bool
	DefaultProps map[string][]string // func -> props for unlabelled (safety) obligations
}

func NewSink(pass string) *Sink {
	return &Sink{Pass: pass, Assumed: map[string]bool{}, Ungenerated: map[string]string{}, Functions: map[string]bool{}, Cover: map[string]bool{}, DefaultProps: map[string][]string{}}
}

func obName(pass string, c *Clause) string {
	n := pass + "." + c.Func + "/" + c.Kind + "/" + c.Label
	if c.Site != "" && c.Kind != "inv-entry" && c.Kind != "inv-preserve" {
		n += "@" + c.Site
	}
	return n
}

// Assert records an obligation instance under the current path condition.
func (k *Sink) Assert(s *State, f *Frame, c *Clause, cond *Term, in ssa.Instruction) {
	inst := &Instance{Name: obName(k.Pass, c), Clause: c, Hyps: append([]*Term(nil), s.PC...), Goal: cond}
	inst.Trace = append([]string(nil), s.Trace...)
	if in != nil && in.Pos().IsValid() {
		inst.Pos = s.X.Prog.Fset.Position(in.Pos()).String()
	}
	for _, ev := range s.Events {
		inst.Events = append(inst.Events, eventString(ev))
	}
	k.mu.Lock()
	k.Instances = append(k.Instances, inst)
	k.mu.Unlock()
}

func eventString(ev Event) string {
	var parts []string
	for _, a := range ev.Args {
		parts = append(parts, valueString(a))
	}
	s := ev.Kind + " " + ev.Name + "(" + strings.Join(parts, ", ") + ")"
	if len(ev.Rets) > 0 {
		var rs []string
		for _, r := range ev.Rets {
			rs = append(rs, valueString(r))
		}
		s += " -> " + strings.Join(rs, ", ")
	}
	if len(s) > 300 {
		s = s[:300] + "…"
	}
	return s
}

func (k *Sink) NoteAssume(c *Clause) {
	k.mu.Lock()
	k.Assumed[c.Func+" at "+c.Site+" assume "+c.Label+": "+c.Text] = true
	k.mu.Unlock()
}

// Vacuity records a must-not-be-unsat query for the hypotheses pc.
func (k *Sink) Vacuity(x *Exec, fn *ssa.Function, spec *FuncSpec, where string, pc []*Term) {
	c := &Clause{Kind: "vacuity", Label: where, Func: x.funcName(fn)}
	inst := &Instance{Name: obName(k.Pass, c), Clause: c, Hyps: append([]*Term(nil), pc...), Goal: False, Vacuity: true}
	k.mu.Lock()
	k.Instances = append(k.Instances, inst)
	k.mu.Unlock()
}

// SolveAll discharges all instances in parallel and aggregates.
func (k *Sink) SolveAll(ctx *Ctx, cfg *SolverConfig) []*ObResult {
	// dedupe by query text
	type job struct {
		key   string
		insts []*Instance
	}
	byKey := map[string]*job{}
	var jobs []*job
	for _, inst := range k.Instances {
		var sb strings.Builder
		for _, h := range inst.Hyps {
			sb.WriteString(smtString(h))
			sb.WriteByte('\n')
		}
		sb.WriteString("|-")
		sb.WriteString(smtString(inst.Goal))
		h := sha1.Sum([]byte(sb.String()))
		key := string(h[:])
		if inst.Vacuity {
			key = "v" + key
		}
		j := byKey[key]
		if j == nil {
			j = &job{key: key}
			byKey[key] = j
			jobs = append(jobs, j)
		}
		j.insts = append(j.insts, inst)
	}
	var wg sync.WaitGroup
	sem := make(chan struct{}, 16)
	for _, j := range jobs {
		j := j
		wg.Add(1)
		sem <- struct{}{}
		go func() {
			defer wg.Done()
			defer func() { <-sem }()
			first := j.insts[0]
			c2 := *cfg
			if first.Vacuity {
				c2.TimeoutSec = 3
				c2.Backends = []string{"z3-new"}
			}
			r := ctx.Solve(&c2, first.Name, first.Hyps, first.Goal)
			for _, in := range j.insts {
				in.Result = r
			}
		}()
	}
	wg.Wait()
	// second round: a query nobody decided within the time-out is retried with a
	// six-fold time-out and little competition for the cores, so that a loaded
	// machine does not turn a provable obligation into an alarm
	var retry []*job
	for _, j := range jobs {
		if !j.insts[0].Vacuity && j.insts[0].Result != nil && j.insts[0].Result.Status == Unknown {
			retry = append(retry, j)
		}
	}
	if len(retry) > 0 && len(retry) <= 40 {
		sem2 := make(chan struct{}, 4)
		for _, j := range retry {
			j := j
			wg.Add(1)
			sem2 <- struct{}{}
			go func() {
				defer wg.Done()
				defer func() { <-sem2 }()
				first := j.insts[0]
				c2 := *cfg
				c2.TimeoutSec = cfg.TimeoutSec * 6
				r := ctx.Solve(&c2, first.Name, first.Hyps, first.Goal)
				r.Seconds += first.Result.Seconds
				if r.Status == Unknown {
					r.Output = "retried with " + fmt.Sprint(c2.TimeoutSec) + "s: " + r.Output
				}
				for _, in := range j.insts {
					in.Result = r
				}
			}()
		}
		wg.Wait()
	}
	// aggregate
	agg := map[string]*ObResult{}
	var order []string
	for _, inst := range k.Instances {
		r := agg[inst.Name]
		if r == nil {
			r = &ObResult{Name: inst.Name, Props: inst.Clause.Props, Kind: inst.Clause.Kind, Func: inst.Clause.Func, Text: inst.Clause.Text, Backends: map[string]int{}, Status: "discharged"}
			if len(r.Props) == 0 {
				r.Props = k.DefaultProps[inst.Clause.Func]
			}
			agg[inst.Name] = r
			order = append(order, inst.Name)
		}
		r.Instances++
		res := inst.Result
		r.Seconds += res.Seconds
		if inst.Vacuity {
			// unsat means the hypotheses are contradictory
			if res.Status != Unsat {
				r.Discharged++
				r.Backends["vacuity-"+res.Status.String()]++
			}
			continue
		}
		if res.Status != Unsat {
			w := inst.Pos
			if len(inst.Trace) > 0 {
				w = inst.Trace[len(inst.Trace)-1]
			}
			st := "undecided"
			if res.Status == Sat {
				st = "violated"
			}
			if len(r.Failures) < 50 {
				r.Failures = append(r.Failures, Failure{Witness: w, Status: st})
			}
		}
		switch res.Status {
		case Unsat:
			r.Discharged++
			r.Backends[res.Backend]++
		case Sat:
			if r.Status != "violated" {
				r.Status = "violated"
				r.Model = res.Model
				r.FailTrace = inst.Trace
				r.FailPos = inst.Pos
				r.FailQuery = res.Query
				r.FailEvents = inst.Events
				r.Detail = "counter-model from " + res.Backend
			}
		default:
			if r.Status == "discharged" {
				r.Status = "undecided"
				r.Detail = res.Output
				r.FailTrace = inst.Trace
				r.FailPos = inst.Pos
				r.FailQuery = res.Query
				r.FailEvents = inst.Events
			}
		}
	}
	for _, r := range agg {
		// a cut point is vacuous only if no path reaches it with
		// satisfiable hypotheses
		if r.Kind == "vacuity" && r.Discharged == 0 {
			r.Status = "vacuous"
			r.Detail = "hypotheses are contradictory on every path"
		}
	}
	var out []*ObResult
	sort.Strings(order)
	for _, n := range order {
		out = append(out, agg[n])
	}
	return out
}

func (r *ObResult) String() string {
	return fmt.Sprintf("%-10s %s (%d/%d) %.2fs %v", r.Status, r.Name, r.Discharged, r.Instances, r.Seconds, r.Backends)
}
