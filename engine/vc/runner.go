package vc

import (
	"encoding/json"
	"fmt"
	"os"
	"path/filepath"
	"sort"
	"strings"
	"time"

	"golang.org/x/tools/go/packages"
	"golang.org/x/tools/go/ssa"
	"golang.org/x/tools/go/ssa/ssautil"
)

// LoadResult is a loaded and SSA-built set of packages.
type LoadResult struct {
	Pkgs  []*packages.Package
	Prog  *ssa.Program
	SSA   []*ssa.Package
	Funcs map[string]*ssa.Function // "pkgpath::RelString" -> function (incl. anonymous)
}

// Load loads the patterns in dir with the given build tags and builds SSA.
func Load(dir string, tags []string, patterns ...string) (*LoadResult, error) {
	lr, bad, err := LoadLenient(dir, tags, patterns...)
	if err != nil {
		return nil, err
	}
	if len(bad) > 0 {
		var errs []string
		for _, es := range bad {
			errs = append(errs, es...)
		}
		sort.Strings(errs)
		return nil, fmt.Errorf("package errors:\n%s", strings.Join(errs, "\n"))
	}
	return lr, nil
}

// LoadLenient loads like Load but tolerates packages with errors: they (and
// their dependents) are left out of the SSA program and returned in bad.
func LoadLenient(dir string, tags []string, patterns ...string) (*LoadResult, map[string][]string, error) {
	cfg := &packages.Config{
		Mode: packages.NeedName | packages.NeedFiles | packages.NeedCompiledGoFiles | packages.NeedImports | packages.NeedDeps |
			packages.NeedTypes | packages.NeedTypesSizes | packages.NeedSyntax | packages.NeedTypesInfo | packages.NeedModule,
		Dir:        dir,
		BuildFlags: []string{"-tags=" + strings.Join(tags, ",")},
		Env:        append(os.Environ(), "GOFLAGS=-mod=mod", "GOPROXY=off", "GOSUMDB=off", "GOTOOLCHAIN=local"),
	}
	pkgs, err := packages.Load(cfg, patterns...)
	if err != nil {
		return nil, nil, err
	}
	bad := map[string][]string{}
	isBad := map[*packages.Package]bool{}
	packages.Visit(pkgs, nil, func(p *packages.Package) {
		for _, e := range p.Errors {
			bad[p.PkgPath] = append(bad[p.PkgPath], e.Error())
			isBad[p] = true
		}
		for _, imp := range p.Imports {
			if isBad[imp] && !isBad[p] {
				isBad[p] = true
				bad[p.PkgPath] = append(bad[p.PkgPath], "imports a package with errors: "+imp.PkgPath)
			}
		}
	})
	if len(bad) > 0 {
		var good []*packages.Package
		for _, p := range pkgs {
			if !isBad[p] {
				good = append(good, p)
			}
		}
		pkgs = good
	}
	prog, spkgs := ssautil.AllPackages(pkgs, ssa.GlobalDebug|ssa.InstantiateGenerics)
	prog.Build()
	lr := &LoadResult{Pkgs: pkgs, Prog: prog, SSA: spkgs, Funcs: map[string]*ssa.Function{}}
	for fn := range ssautil.AllFunctions(prog) {
		if fn.Pkg == nil && fn.Parent() == nil {
			continue
		}
		pkg := fn.Pkg
		for p := fn; pkg == nil && p != nil; p = p.Parent() {
			pkg = p.Pkg
		}
		if pkg == nil {
			continue
		}
		lr.Funcs[pkg.Pkg.Path()+"::"+fn.RelString(pkg.Pkg)] = fn
	}
	return lr, bad, nil
}

// PassResult is the JSON output of a pass.
type PassResult struct {
	Pass        string            `json:"pass"`
	Functions   []string          `json:"functions_under_contract"`
	Trusted     []string          `json:"trusted_contracts"`
	Stale       []string          `json:"stale_contracts"`
	Ungenerated map[string]string `json:"ungenerated"`
	Obligations []*ObResult       `json:"obligations"`
	Assumed     []string          `json:"assumed_clauses"`
	Paths       int               `json:"paths"`
	WallSeconds float64           `json:"wall_seconds"`
	Diag        []string          `json:"diag,omitempty"`
	Extra       map[string]any    `json:"extra,omitempty"`
}

// BindSpecs attaches parsed contract files to SSA functions of a package.
func BindSpecs(x *Exec, lr *LoadResult, pkgPath string, cf *ContractFile, res *PassResult) map[*ssa.Function]*FuncSpec {
	bound := map[*ssa.Function]*FuncSpec{}
	for _, fs := range cf.Funcs {
		fs.Pkg = pkgPath
		fn := lr.Funcs[pkgPath+"::"+fs.Name]
		if fn == nil {
			res.Stale = append(res.Stale, pkgPath+"::"+fs.Name)
			continue
		}
		x.Specs[fn] = fs
		bound[fn] = fs
	}
	return bound
}

// LoadBindings reads the reference locals and computes the alias maps of the
// bound functions. With write=true the current locals are recorded instead.
func ApplyBindings(x *Exec, lr *LoadResult, bound map[*ssa.Function]*FuncSpec, path string, write bool) {
	ref := map[string][]VarBinding{}
	if b, err := os.ReadFile(path); err == nil {
		json.Unmarshal(b, &ref)
	}
	if x.Aliases == nil {
		x.Aliases = map[*ssa.Function]map[string]string{}
	}
	for fn, sp := range bound {
		key := sp.Pkg + "::" + sp.Name
		cur := LocalsOf(fn, lr.Pkgs)
		if write {
			ref[key] = cur
			continue
		}
		if r, ok := ref[key]; ok {
			if al := Aliases(r, cur); len(al) > 0 {
				x.Aliases[fn] = al
				x.diag("%s: renamed locals bound by (type, ordinal): %v", key, al)
			}
		}
	}
	if write {
		WriteJSON(path, ref)
	}
}

// VerifyAll verifies every non-trusted bound function.
func VerifyAll(x *Exec, bound map[*ssa.Function]*FuncSpec, res *PassResult) {
	var fns []*ssa.Function
	for fn := range bound {
		fns = append(fns, fn)
	}
	sort.Slice(fns, func(i, j int) bool { return fns[i].String() < fns[j].String() })
	for _, fn := range fns {
		spec := bound[fn]
		name := spec.Pkg + "::" + spec.Name
		if spec.Trusted {
			res.Trusted = append(res.Trusted, name)
			continue
		}
		if spec.Inline {
			continue
		}
		res.Functions = append(res.Functions, name)
		if p, ok := spec.Options["props"]; ok {
			x.Sink.DefaultProps[x.funcName(fn)] = parseProps(p)
		}
		if pr, ok := spec.Options["fresh-result-slice"]; ok {
			okf, why := FreshResultSlice(fn)
			x.Sink.Structural(x.funcName(fn), "frame", "result-slice-shares-no-backing-array-with-arguments", parseProps(pr), okf, why)
		}
		before := len(x.Sink.Instances)
		if err := x.VerifyFunction(fn, spec); err != nil {
			res.Ungenerated[name] = err.Error()
			// drop partial obligations of this function: they are incomplete
			x.Sink.Instances = x.Sink.Instances[:before]
		}
	}
}

func WriteJSON(path string, v any) error {
	b, err := json.MarshalIndent(v, "", " ")
	if err != nil {
		return err
	}
	if err := os.MkdirAll(filepath.Dir(path), 0o755); err != nil {
		return err
	}
	return os.WriteFile(path, b, 0o644)
}

// Finish solves and fills the result.
func Finish(x *Exec, cfg *SolverConfig, res *PassResult, start time.Time) {
	res.Obligations = x.Sink.SolveAll(x.Ctx, cfg)
	for a := range x.Sink.Assumed {
		res.Assumed = append(res.Assumed, a)
	}
	sort.Strings(res.Assumed)
	res.Paths = x.paths
	res.Diag = x.Diag
	res.WallSeconds = time.Since(start).Seconds()
}
