package vc

import (
	"fmt"
	"go/token"
	"go/types"
	"sort"

	"golang.org/x/tools/go/ssa"
)

// Loop is a natural loop.
type Loop struct {
	Header  *ssa.BasicBlock
	Ordinal int
	Blocks  map[*ssa.BasicBlock]bool
}

type LoopInfo struct {
	ByHeader map[*ssa.BasicBlock]*Loop
	Body     map[*ssa.BasicBlock]map[*ssa.BasicBlock]bool
	Loops    []*Loop
}

func (x *Exec) loops(fn *ssa.Function) *LoopInfo {
	if li, ok := x.loopInfo[fn]; ok {
		return li
	}
	li := &LoopInfo{ByHeader: map[*ssa.BasicBlock]*Loop{}, Body: map[*ssa.BasicBlock]map[*ssa.BasicBlock]bool{}}
	for _, b := range fn.Blocks {
		for _, succ := range b.Succs {
			if succ.Dominates(b) {
				// back edge b -> succ
				lp := li.ByHeader[succ]
				if lp == nil {
					lp = &Loop{Header: succ, Blocks: map[*ssa.BasicBlock]bool{succ: true}}
					li.ByHeader[succ] = lp
					li.Loops = append(li.Loops, lp)
				}
				// collect nodes reaching b without passing header
				stack := []*ssa.BasicBlock{b}
				for len(stack) > 0 {
					n := stack[len(stack)-1]
					stack = stack[:len(stack)-1]
					if lp.Blocks[n] {
						continue
					}
					lp.Blocks[n] = true
					stack = append(stack, n.Preds...)
				}
			}
		}
	}
	sort.Slice(li.Loops, func(i, j int) bool { return li.Loops[i].Header.Index < li.Loops[j].Header.Index })
	for i, lp := range li.Loops {
		lp.Ordinal = i + 1
		li.Body[lp.Header] = lp.Blocks
	}
	x.loopInfo[fn] = li
	return li
}

// atLoopHeader implements the cut point: on entry assert the invariant,
// havoc the loop-modified state, assume the invariant; on a back edge assert
// the invariant and end the path.
func (x *Exec) atLoopHeader(s *State, f *Frame, lp *Loop, phis []*ssa.Phi) []*State {
	var invs []*Clause
	if f.Spec != nil {
		if ls := f.Spec.Loops[lp.Ordinal]; ls != nil {
			invs = ls.Invariants
		}
	}
	// expose the range index of rangeindex loops as a pseudo variable
	x.exposeLoopVars(s, f, lp, phis)
	back := f.OpenLoops[lp.Header]
	env := s.NewEnv(f)
	for _, c := range invs {
		env.Side = nil
		t, err := env.EvalBool(c.Expr)
		if err != nil {
			evalErr("%s loop %d invariant %s: %v", x.funcName(f.Fn), lp.Ordinal, c.Label, err)
		}
		for _, sd := range env.Side {
			s.Assume(sd)
		}
		cl := *c
		if back {
			cl.Kind = "inv-preserve"
		} else {
			cl.Kind = "inv-entry"
		}
		cl.Func = x.funcName(s.Frames[0].Fn)
		if f != s.Frames[0] {
			cl.Label = x.funcName(f.Fn) + "." + c.Label
		}
		cl.Site = fmt.Sprintf("loop%d", lp.Ordinal)
		x.Sink.Assert(s, f, &cl, t, nil)
	}
	if back {
		if x.OnLoopBack != nil {
			x.OnLoopBack(s, f, lp)
		}
		x.paths++
		return []*State{}
	}
	// havoc
	f.OpenLoops[lp.Header] = true
	x.havocLoop(s, f, lp, phis)
	x.exposeLoopVars(s, f, lp, phis)
	env = s.NewEnv(f)
	for _, c := range invs {
		env.Side = nil
		t, err := env.EvalBool(c.Expr)
		if err != nil {
			evalErr("%s loop %d invariant %s: %v", x.funcName(f.Fn), lp.Ordinal, c.Label, err)
		}
		for _, sd := range env.Side {
			s.Assume(sd)
		}
		s.Assume(t)
	}
	s.Events = append(s.Events, Event{Kind: "loop-havoc", Name: fmt.Sprintf("%s loop %d", f.Fn.Name(), lp.Ordinal)})
	if f.Spec != nil {
		x.Sink.Vacuity(x, f.Fn, f.Spec, fmt.Sprintf("loop%d", lp.Ordinal), s.PC)
	}
	return nil
}

// exposeLoopVars binds pseudo-variables for loop index phis without source
// names: rangeindex loops expose "idxN" = number of completed iterations
// (the SSA phi starts at -1 and holds the previous index).
func (x *Exec) exposeLoopVars(s *State, f *Frame, lp *Loop, phis []*ssa.Phi) {
	for _, phi := range phis {
		if phi.Comment == "rangeindex" {
			v := f.Regs[phi].(*Scalar)
			name := fmt.Sprintf("idx%d", lp.Ordinal)
			f.Vars[name] = S(Add(v.T, IntLit(1)))
			f.VarAddr[name] = false
		}
	}
}

func (x *Exec) havocLoop(s *State, f *Frame, lp *Loop, phis []*ssa.Phi) {
	// header phis
	for _, phi := range phis {
		nv := s.freshValue("loop."+phi.Comment, phi.Type())
		if phi.Comment == "rangeindex" {
			if sc, ok := nv.(*Scalar); ok {
				s.Assume(Ge(sc.T, IntLit(-1)))
			}
		}
		f.Regs[phi] = nv
		if isIdent(phi.Comment) {
			f.Vars[phi.Comment] = nv
			f.VarAddr[phi.Comment] = false
		}
	}
	mods := x.loopMods(f.Fn, lp, f.Spec, 0)
	for comp := range mods.Heap {
		x.havocPrefix(s, comp)
	}
	if mods.AllHeap {
		for k := range s.Heap {
			x.havocPrefix(s, k)
		}
	}
	for g := range mods.Ghost {
		if old, ok := s.Ghost[g]; ok {
			switch o := old.(type) {
			case *Scalar:
				s.Ghost[g] = S(x.Ctx.Fresh("ghost."+g, o.T.Sort))
			case *PtrVal:
				if o.Cell == nil {
					s.Ghost[g] = &PtrVal{Ref: x.Ctx.Fresh("ghost."+g, SInt), Base: o.Base, Typ: o.Typ}
				}
			case *SliceVal:
				ln := x.Ctx.Fresh("ghost."+g+"@len", SInt)
				s.Assume(Ge(ln, IntLit(0)))
				s.Ghost[g] = &SliceVal{Arr: x.Ctx.Fresh("ghost."+g+"@arr", o.Arr.Sort), Len: ln, Cap: ln, Elem: o.Elem}
			}
		}
	}
	// cells: captured variables stored to in the loop (resolved dynamically)
	for _, a := range mods.CellAddrs {
		v, ok := f.Regs[a]
		if !ok {
			// free var?
			if fv, isFV := a.(*ssa.FreeVar); isFV {
				for i, ff := range f.Fn.FreeVars {
					if ff == fv {
						v = f.Free[i]
						ok = true
					}
				}
			}
			if !ok {
				continue
			}
		}
		switch p := v.(type) {
		case *PtrVal:
			if p.Cell != nil {
				s.Cells[p.Cell] = s.freshValue("loop.cell."+p.Cell.Name, p.Cell.Typ)
			}
		case *SliceVal:
			if p.Backing != nil {
				old := s.Cells[p.Backing].(*ArrayVal)
				s.Cells[p.Backing] = &ArrayVal{Arr: x.Ctx.Fresh("loop.arr", old.Arr.Sort), N: old.N, Elem: old.Elem}
			}
		}
	}
	if mods.AllCells {
		for c := range s.Cells {
			s.Cells[c] = s.freshValue("loop.cell."+c.Name, c.Typ)
		}
	}
}

type modSet struct {
	// region: the blocks being scanned; a store into an object allocated inside
	// the region does not modify any object that existed before the region was
	// entered, so it is not a modification the caller / loop entry can observe.
	region    map[*ssa.BasicBlock]bool
	Heap      map[string]bool
	Ghost     map[string]bool
	CellAddrs []ssa.Value
	AllCells  bool
	AllHeap   bool
}

// loopMods computes the heap components, ghost variables and cells possibly
// modified by the blocks of a loop (including callees inlined from it).
func (x *Exec) loopMods(fn *ssa.Function, lp *Loop, spec *FuncSpec, depth int) *modSet {
	ms := &modSet{Heap: map[string]bool{}, Ghost: map[string]bool{}}
	var blocks []*ssa.BasicBlock
	for b := range lp.Blocks {
		blocks = append(blocks, b)
	}
	x.scanMods(fn, blocks, spec, ms, depth, map[*ssa.Function]bool{})
	return ms
}

func (x *Exec) scanMods(fn *ssa.Function, blocks []*ssa.BasicBlock, spec *FuncSpec, ms *modSet, depth int, seen map[*ssa.Function]bool) {
	sm := x.sites(fn)
	region := map[*ssa.BasicBlock]bool{}
	for _, b := range blocks {
		region[b] = true
	}
	saved := ms.region
	ms.region = region
	defer func() { ms.region = saved }()
	for _, b := range blocks {
		for _, in := range b.Instrs {
			// ghost updates attached to sites
			if spec != nil {
				for _, k := range sm.Keys[in] {
					for sk, ss := range spec.Sites {
						if sk == k || len(sk) > len(k) && sk[:len(k)] == k && sk[len(k)] == '.' {
							for _, c := range ss.Clauses {
								if c.Kind == "ghost" {
									ms.Ghost[rootIdent(c.GhostLHS)] = true
								}
							}
						}
					}
				}
			}
			switch in := in.(type) {
			case *ssa.Store:
				x.addrMods(in.Addr, ms)
			case *ssa.MapUpdate:
				ms.Heap["map."+typeKey(in.Map.Type())] = true
			case *ssa.Call:
				x.callMods(fn, &in.Call, ms, depth, seen)
			case *ssa.Defer:
				x.callMods(fn, &in.Call, ms, depth, seen)
			case *ssa.Go:
			case *ssa.UnOp:
			}
		}
	}
}

func (x *Exec) addrMods(addr ssa.Value, ms *modSet) {
	switch a := addr.(type) {
	case *ssa.FieldAddr:
		// root struct type and field path
		comp := ""
		var cur ssa.Value = a
		var names []string
		for {
			fa, ok := cur.(*ssa.FieldAddr)
			if !ok {
				break
			}
			st := fa.X.Type().Underlying().(*types.Pointer).Elem()
			names = append([]string{st.Underlying().(*types.Struct).Field(fa.Field).Name()}, names...)
			comp = typeKey(st)
			cur = fa.X
		}
		if al, ok := cur.(*ssa.Alloc); ok && ms.region != nil && ms.region[al.Block()] {
			return // field of an object allocated in the scanned region
		}
		for _, n := range names {
			comp += "." + n
		}
		ms.Heap[comp] = true
	case *ssa.IndexAddr:
		ms.CellAddrs = append(ms.CellAddrs, a.X)
		// heap arrays
		if fa, ok := a.X.(*ssa.FieldAddr); ok {
			x.addrMods(fa, ms)
		}
	case *ssa.Alloc, *ssa.FreeVar, *ssa.Parameter:
		ms.CellAddrs = append(ms.CellAddrs, a)
	case *ssa.Global:
		ms.AllCells = true
	default:
		// pointer of unknown provenance, e.g. *p = v with p a loaded pointer
		if pt, ok := addr.Type().Underlying().(*types.Pointer); ok {
			if _, isStruct := pt.Elem().Underlying().(*types.Struct); isStruct {
				ms.Heap[typeKey(pt.Elem())] = true
			} else {
				ms.Heap["deref."+typeKey(pt.Elem())] = true
				ms.AllCells = true
			}
		}
	}
}

// closureOf resolves the function a call through a local variable invokes: the
// variable (an Alloc, or the captured variable of a closure) is assigned a
// single MakeClosure / function in its defining function.
func closureOf(fn *ssa.Function, v ssa.Value) (*ssa.Function, []ssa.Value) {
	switch t := v.(type) {
	case *ssa.Function:
		return t, nil
	case *ssa.MakeClosure:
		return t.Fn.(*ssa.Function), t.Bindings
	case *ssa.UnOp:
		if t.Op != token.MUL {
			return nil, nil
		}
		switch cell := t.X.(type) {
		case *ssa.Alloc:
			var tgt *ssa.Function
			var binds []ssa.Value
			n := 0
			if cell.Referrers() == nil {
				return nil, nil
			}
			for _, r := range *cell.Referrers() {
				if st, ok := r.(*ssa.Store); ok && st.Addr == cell {
					n++
					tgt, binds = closureOf(fn, st.Val)
				}
			}
			if n == 1 {
				return tgt, binds
			}
		case *ssa.FreeVar:
			// the variable lives in the parent: find the binding
			par := fn.Parent()
			if par == nil {
				return nil, nil
			}
			idx := -1
			for i, fv := range fn.FreeVars {
				if fv == cell {
					idx = i
				}
			}
			for _, b := range par.Blocks {
				for _, in := range b.Instrs {
					if mc, ok := in.(*ssa.MakeClosure); ok && mc.Fn == fn && idx >= 0 && idx < len(mc.Bindings) {
						tgt, binds := closureOf(par, &ssa.UnOp{Op: token.MUL, X: mc.Bindings[idx]})
						if tgt == fn {
							// the closure itself (recursion): its bindings are its own free variables
							var own []ssa.Value
							for _, fv := range fn.FreeVars {
								own = append(own, fv)
							}
							return tgt, own
						}
						_ = binds
						return nil, nil
					}
				}
			}
		}
	}
	return nil, nil
}

func (x *Exec) callMods(fn *ssa.Function, c *ssa.CallCommon, ms *modSet, depth int, seen map[*ssa.Function]bool) {
	if c.IsInvoke() {
		return
	}
	if b, ok := c.Value.(*ssa.Builtin); ok {
		if b.Name() == "close" {
			ms.Heap["chan"] = true
		}
		if b.Name() == "delete" {
			ms.Heap["map."+typeKey(c.Args[0].Type())] = true
		}
		return
	}
	target, binds := closureOf(fn, c.Value)
	if target == nil {
		return
	}
	if mods, ok := x.ModelMods[target.String()]; ok {
		for _, m := range mods {
			ms.Heap[m] = true
		}
		return
	}
	if spec, ok := x.Specs[target]; ok && !spec.Inline {
		for _, m := range spec.Modifies {
			ms.Heap[m] = true
		}
	}
	if len(target.Blocks) == 0 || seen[target] {
		return
	}
	if target.Parent() == nil && !x.samePackage(fn, target) {
		return
	}
	if depth > 8 {
		// give up on precision, not on soundness
		ms.AllHeap = true
		ms.AllCells = true
		return
	}
	seen[target] = true
	sub := &modSet{Heap: map[string]bool{}, Ghost: map[string]bool{}}
	x.scanMods(target, target.Blocks, x.Specs[target], sub, depth+1, seen)
	for k := range sub.Heap {
		ms.Heap[k] = true
	}
	for k := range sub.Ghost {
		ms.Ghost[k] = true
	}
	ms.AllCells = ms.AllCells || sub.AllCells
	ms.AllHeap = ms.AllHeap || sub.AllHeap
	for _, a := range sub.CellAddrs {
		if fvar, ok := a.(*ssa.FreeVar); ok {
			// a captured variable of the callee is a variable of the caller
			mapped := false
			for i, ff := range target.FreeVars {
				if ff == fvar && i < len(binds) {
					ms.CellAddrs = append(ms.CellAddrs, binds[i])
					mapped = true
				}
			}
			if !mapped {
				ms.AllCells = true
			}
			continue
		}
		// locals / parameters of the callee are not visible to the caller
		switch a.(type) {
		case *ssa.Alloc, *ssa.Parameter:
			continue
		}
		ms.CellAddrs = append(ms.CellAddrs, a)
	}
}
