package vc

import (
	"go/types"
)

// Assumed contracts on dependencies (the "prelude"). Each model is a
// hand-written specification of a library function; they are listed in the
// evidence as trusted.

var PreludeClauses = []string{
	"container/list: New/Len/PushBack/Front/Remove(front only)/Element.Value as a FIFO over (q, lo, hi)",
	"time.NewTicker returns a fresh ticker with a non-nil channel C; (*Ticker).Stop marks it stopped",
	"runtime.GOMAXPROCS(0) returns a value >= 1 and changes nothing",
	"errors.New returns a fresh non-nil error",
	"errors.Is(e, t): true if e == t; false if e == nil && t != nil; otherwise uninterpreted",
	"multierr.Append(a, b): a if b == nil; b if a == nil; non-nil if either is non-nil; leaves(Append(a,b)) = leaves(a) ++ leaves(b) for leaf errors",
	"sync/atomic.Bool Load/Store as a plain boolean cell (atomicity itself assumed)",
	"A-panicnil: a panicking call panics with a non-nil value, i.e. recover() is non-nil while panicking (Go >= 1.21 semantics, where panic(nil) is a *runtime.PanicNilError); under a go directive < 1.21 a recover handler that tests `recovered != nil` lets panic(nil) pass as a normal return - outside the model",
}

func listElemKey() string { return "container_list.Element" }

func (x *Exec) RegisterStdModels() {
	intArr := SArr(SInt, SInt)
	getLo := func(s *State) *Term { return s.heapComp("list.lo", intArr) }
	getHi := func(s *State) *Term { return s.heapComp("list.hi", intArr) }
	getQ := func(s *State) *Term { return s.heapComp("list.q", SArr(SInt, intArr)) }
	elemType := func(c *CallCtx) types.Type {
		// *list.Element from the signature of Front/PushBack
		sig := c.Common.Signature()
		return sig.Results().At(0).Type().Underlying().(*types.Pointer).Elem()
	}
	x.Models["container/list.New"] = func(s *State, c *CallCtx) (Value, bool) {
		id := IntLit(x.newID())
		s.setHeapComp("list.lo", Store(getLo(s), id, IntLit(0)))
		s.setHeapComp("list.hi", Store(getHi(s), id, IntLit(0)))
		lt := c.Common.Signature().Results().At(0).Type().Underlying().(*types.Pointer).Elem()
		return &PtrVal{Ref: id, Base: lt, Typ: lt}, true
	}
	x.Models["(*container/list.List).Len"] = func(s *State, c *CallCtx) (Value, bool) {
		l := x.scalar(c.Args[0])
		return S(Sub(Select(getHi(s), l), Select(getLo(s), l))), true
	}
	x.Models["(*container/list.List).PushBack"] = func(s *State, c *CallCtx) (Value, bool) {
		l := x.scalar(c.Args[0])
		v := x.scalar(c.Args[1])
		hi := Select(getHi(s), l)
		e := IntLit(x.newID())
		et := elemType(c)
		s.setHeapComp("list.q", Store(getQ(s), l, Store(Select(getQ(s), l), hi, v)))
		s.setHeapComp("list.hi", Store(getHi(s), l, Add(hi, IntLit(1))))
		valc := s.heapComp(listElemKey()+".Value", intArr)
		s.setHeapComp(listElemKey()+".Value", Store(valc, e, v))
		s.setHeapComp("list.elidx", Store(s.heapComp("list.elidx", intArr), e, hi))
		s.setHeapComp("list.ellist", Store(s.heapComp("list.ellist", intArr), e, l))
		return &PtrVal{Ref: e, Base: et, Typ: et}, true
	}
	x.ModelMods["(*container/list.List).PushBack"] = []string{"list", listElemKey()}
	x.Models["(*container/list.List).Front"] = func(s *State, c *CallCtx) (Value, bool) {
		l := x.scalar(c.Args[0])
		lo, hi := Select(getLo(s), l), Select(getHi(s), l)
		e := x.Ctx.Fresh("front", SInt)
		et := elemType(c)
		nonEmpty := Lt(lo, hi)
		valc := s.heapComp(listElemKey()+".Value", intArr)
		s.Assume(Implies(nonEmpty, And(
			Gt(e, IntLit(0)),
			Eq(Select(valc, e), Select(Select(getQ(s), l), lo)),
			Eq(Select(s.heapComp("list.elidx", intArr), e), lo),
			Eq(Select(s.heapComp("list.ellist", intArr), e), l))))
		return &PtrVal{Ref: Ite(nonEmpty, e, IntLit(0)), Base: et, Typ: et}, true
	}
	x.Models["(*container/list.List).Remove"] = func(s *State, c *CallCtx) (Value, bool) {
		l := x.scalar(c.Args[0])
		e := x.scalar(c.Args[1])
		lo := Select(getLo(s), l)
		// model limit: only removal of the front element is specified
		x.safety(s, s.top(), c.Instr, "list-remove-front-only", And(
			Neq(e, IntLit(0)),
			Eq(Select(s.heapComp("list.ellist", intArr), e), l),
			Eq(Select(s.heapComp("list.elidx", intArr), e), lo),
			Lt(lo, Select(getHi(s), l))))
		s.setHeapComp("list.lo", Store(getLo(s), l, Add(lo, IntLit(1))))
		valc := s.heapComp(listElemKey()+".Value", intArr)
		return S(Select(valc, e)), true
	}
	x.ModelMods["(*container/list.List).Remove"] = []string{"list"}

	x.SpecFuncs["listlen"] = func(e *Env, a []Value) Value {
		l := e.toTerm(a[0])
		return S(Sub(Select(getHi(e.S), l), Select(getLo(e.S), l)))
	}
	x.SpecFuncs["listlo"] = func(e *Env, a []Value) Value { return S(Select(getLo(e.S), e.toTerm(a[0]))) }
	x.SpecFuncs["listhi"] = func(e *Env, a []Value) Value { return S(Select(getHi(e.S), e.toTerm(a[0]))) }
	x.SpecFuncs["listat"] = func(e *Env, a []Value) Value {
		return S(Select(Select(getQ(e.S), e.toTerm(a[0])), e.toTerm(a[1])))
	}

	// time
	x.Models["time.NewTicker"] = func(s *State, c *CallCtx) (Value, bool) {
		id := IntLit(x.newID())
		tt := c.Common.Signature().Results().At(0).Type().Underlying().(*types.Pointer).Elem()
		ch := x.Ctx.Fresh("tickerC", SInt)
		s.Assume(Gt(ch, IntLit(0)))
		p := &PtrVal{Ref: id, Base: tt, Typ: tt}
		s.setHeapComp(typeKey(tt)+".C", Store(s.heapComp(typeKey(tt)+".C", intArr), id, ch))
		s.setHeapComp("ticker.stopped", Store(s.heapComp("ticker.stopped", SArr(SInt, SBool)), id, False))
		s.Events = append(s.Events, Event{Kind: "call", Name: "time.NewTicker", Args: c.Args, Rets: []Value{p}, Instr: c.Instr})
		return p, true
	}
	x.Models["(*time.Ticker).Stop"] = func(s *State, c *CallCtx) (Value, bool) {
		t := x.scalar(c.Args[0])
		s.setHeapComp("ticker.stopped", Store(s.heapComp("ticker.stopped", SArr(SInt, SBool)), t, True))
		s.Events = append(s.Events, Event{Kind: "call", Name: "(*time.Ticker).Stop", Args: c.Args, Instr: c.Instr})
		return nil, true
	}
	x.SpecFuncs["stopped"] = func(e *Env, a []Value) Value {
		return S(Select(e.S.heapComp("ticker.stopped", SArr(SInt, SBool)), e.toTerm(a[0])))
	}
	x.Models["runtime.GOMAXPROCS"] = func(s *State, c *CallCtx) (Value, bool) {
		g := Atom("GOMAXPROCS", SInt)
		s.Assume(Ge(g, IntLit(1)))
		return S(g), true
	}
	x.SpecFuncs["gomaxprocs"] = func(e *Env, a []Value) Value {
		g := Atom("GOMAXPROCS", SInt)
		e.Side = append(e.Side, Ge(g, IntLit(1)))
		return S(g)
	}

	// errors
	x.Models["errors.New"] = func(s *State, c *CallCtx) (Value, bool) {
		e := x.Ctx.Fresh("errors.New", SInt)
		s.Assume(Gt(e, IntLit(0)))
		s.Assume(Neq(x.typeOfTerm(e), IntLit(0)))
		return S(e), true
	}
	x.Ctx.DeclareFunc("errors.Is", []string{SInt, SInt}, SBool)
	x.Models["errors.Is"] = func(s *State, c *CallCtx) (Value, bool) {
		e, t := x.scalar(c.Args[0]), x.scalar(c.Args[1])
		r := App("errors.Is", SBool, e, t)
		s.Assume(Implies(Eq(e, t), r))
		s.Assume(Implies(And(Eq(e, IntLit(0)), Neq(t, IntLit(0))), Not(r)))
		return S(r), true
	}
	x.SpecFuncs["errorsIs"] = func(e *Env, a []Value) Value {
		return S(App("errors.Is", SBool, e.toTerm(a[0]), e.toTerm(a[1])))
	}
	x.Ctx.DeclareFunc("multierr.Append", []string{SInt, SInt}, SInt)
	x.Models["go.uber.org/multierr.Append"] = func(s *State, c *CallCtx) (Value, bool) {
		a, b := x.scalar(c.Args[0]), x.scalar(c.Args[1])
		r := App("multierr.Append", SInt, a, b)
		s.Assume(Implies(Eq(b, IntLit(0)), Eq(r, a)))
		s.Assume(Implies(Eq(a, IntLit(0)), Eq(r, b)))
		s.Assume(Implies(Or(Neq(a, IntLit(0)), Neq(b, IntLit(0))), Gt(r, IntLit(0))))
		s.Assume(Ge(r, IntLit(0)))
		return S(r), true
	}
	// errsLen(e): number of leaf errors multierr.Errors(e) returns (A-leaf:
	// task errors are leaves)
	x.Ctx.DeclareFunc("errsLen", []string{SInt}, SInt)
	x.Ctx.AddAxiom(&Axiom{Name: "errsLen", Triggers: []string{"errsLen"}, Needs: []string{"multierr.Append"},
		Body: "(and (= (errsLen 0) 0) (forall ((a Int) (b Int)) (! (=> (not (= b 0)) (= (errsLen (multierr.Append a b)) (+ (errsLen a) 1))) :pattern ((multierr.Append a b)))))"})
	x.SpecFuncs["errsLen"] = func(e *Env, a []Value) Value {
		return S(App("errsLen", SInt, e.toTerm(a[0])))
	}
	x.SpecFuncs["multierrAppend"] = func(e *Env, a []Value) Value {
		return S(App("multierr.Append", SInt, e.toTerm(a[0]), e.toTerm(a[1])))
	}

	// strings / path/filepath under the String theory
	strLen := func(t *Term) *Term { return App("str.len", SInt, t) }
	x.Models["strings.HasSuffix"] = func(s *State, c *CallCtx) (Value, bool) {
		if !StringTheory {
			return nil, false
		}
		return S(App("str.suffixof", SBool, x.scalar(c.Args[1]), x.scalar(c.Args[0]))), true
	}
	x.Models["strings.HasPrefix"] = func(s *State, c *CallCtx) (Value, bool) {
		if !StringTheory {
			return nil, false
		}
		return S(App("str.prefixof", SBool, x.scalar(c.Args[1]), x.scalar(c.Args[0]))), true
	}
	x.Models["strings.TrimSuffix"] = func(s *State, c *CallCtx) (Value, bool) {
		if !StringTheory {
			return nil, false
		}
		a, suf := x.scalar(c.Args[0]), x.scalar(c.Args[1])
		return S(Ite(App("str.suffixof", SBool, suf, a), App("str.substr", SString, a, IntLit(0), Sub(strLen(a), strLen(suf))), a)), true
	}
	for _, fn := range []string{"path/filepath.Base", "path/filepath.Dir", "path/filepath.Ext"} {
		fn := fn
		x.Models[fn] = func(s *State, c *CallCtx) (Value, bool) {
			if !StringTheory {
				return nil, false
			}
			name := "fp." + fn[len("path/filepath."):]
			x.Ctx.DeclareFunc(name, []string{SString}, SString)
			a := x.scalar(c.Args[0])
			r := App(name, SString, a)
			if fn == "path/filepath.Ext" {
				// assumed: a name ending in ".go" has extension ".go"; the extension is a suffix
				s.Assume(Implies(App("str.suffixof", SBool, Atom("\".go\"", SString), a), Eq(r, Atom("\".go\"", SString))))
				s.Assume(App("str.suffixof", SBool, r, a))
			}
			return S(r), true
		}
	}
	x.Models["path/filepath.Join"] = func(s *State, c *CallCtx) (Value, bool) {
		if !StringTheory {
			return nil, false
		}
		sl := s.sliceSnapshot(c.Args[0])
		n, ok := sl.Len.IntVal()
		if !ok || n != 2 {
			return nil, false
		}
		x.Ctx.DeclareFunc("fp.Join", []string{SString, SString}, SString)
		return S(App("fp.Join", SString, Select(sl.Arr, IntLit(0)), Select(sl.Arr, IntLit(1)))), true
	}
	x.SpecFuncs["fpJoin"] = func(e *Env, a []Value) Value {
		x.Ctx.DeclareFunc("fp.Join", []string{SString, SString}, SString)
		return S(App("fp.Join", SString, e.toTerm(a[0]), e.toTerm(a[1])))
	}
	for _, n := range []string{"Base", "Dir", "Ext"} {
		n := n
		x.SpecFuncs["fp"+n] = func(e *Env, a []Value) Value {
			x.Ctx.DeclareFunc("fp."+n, []string{SString}, SString)
			return S(App("fp."+n, SString, e.toTerm(a[0])))
		}
	}
	x.SpecFuncs["hasSuffix"] = func(e *Env, a []Value) Value {
		return S(App("str.suffixof", SBool, e.toTerm(a[1]), e.toTerm(a[0])))
	}

	// unboxed(x): the struct value boxed in interface value x by this path
	x.SpecFuncs["unboxed"] = func(e *Env, a []Value) Value {
		t := e.toTerm(a[0])
		if t.Op == "box" && len(t.Args) == 2 && t.Args[1].IsAtom() {
			if b, ok := e.S.Boxes[t.Args[1].Op]; ok {
				return b
			}
		}
		evalErr("unboxed: %s is not a value boxed on this path", t)
		return nil
	}
	// sliceof(x): the slice boxed in interface value x
	x.SpecFuncs["sliceof"] = func(e *Env, a []Value) Value {
		t := e.toTerm(a[0])
		if t.Op == "box" && len(t.Args) == 2 && t.Args[1].IsAtom() {
			if b, ok := e.S.Boxes[t.Args[1].Op]; ok {
				return b
			}
		}
		data := x.dataOfTerm(t)
		x.Ctx.DeclareFunc("unbox.len", []string{SInt}, SInt)
		x.Ctx.DeclareFunc("unbox.arr.Int", []string{SInt}, SArr(SInt, SInt))
		return &SliceVal{Arr: App("unbox.arr.Int", SArr(SInt, SInt), data), Len: App("unbox.len", SInt, data), Cap: App("unbox.len", SInt, data)}
	}

	// sync/atomic.Bool
	atomicKey := "atomic.Bool.v"
	x.Models["(*sync/atomic.Bool).Store"] = func(s *State, c *CallCtx) (Value, bool) {
		p := c.Args[0].(*PtrVal)
		key := x.atomicAddr(s, p)
		s.setHeapComp(atomicKey, Store(s.heapComp(atomicKey, SArr(SInt, SBool)), key, x.scalar(c.Args[1])))
		s.Events = append(s.Events, Event{Kind: "atomic-store", Name: "atomic.Bool.Store", Args: []Value{S(key), c.Args[1]}, Instr: c.Instr})
		return nil, true
	}
	x.Models["(*sync/atomic.Bool).Load"] = func(s *State, c *CallCtx) (Value, bool) {
		p := c.Args[0].(*PtrVal)
		key := x.atomicAddr(s, p)
		return S(Select(s.heapComp(atomicKey, SArr(SInt, SBool)), key)), true
	}
	x.ModelMods["(*sync/atomic.Bool).Store"] = []string{"atomic"}
	x.SpecFuncs["atomicBool"] = func(e *Env, a []Value) Value {
		// atomicBool(ref): value of the atomic.Bool embedded (as field "ran") in object ref
		return S(Select(e.S.heapComp(atomicKey, SArr(SInt, SBool)), e.toTerm(a[0])))
	}
}

// atomicAddr identifies an atomic.Bool by the object it is embedded in (one
// atomic field per object is assumed; checked: path length 1).
func (x *Exec) atomicAddr(s *State, p *PtrVal) *Term {
	if p.Cell != nil {
		x.regCell(p.Cell)
		return IntLit(p.Cell.ID)
	}
	if len(p.Path) > 1 {
		unsupported("atomic.Bool nested deeper than one field")
	}
	return p.Ref
}
