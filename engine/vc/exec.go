package vc

import (
	"fmt"
	"go/constant"
	"go/ast"
	"go/token"
	"go/types"
	"os"
	"sort"
	"strings"

	"golang.org/x/tools/go/ssa"
)

const objBase = 1000000

var debugOn = os.Getenv("CFFVC_DEBUG") != ""

// ModelFn models an external function. It returns the result value (nil
// for none) and true if it handled the call.
type ModelFn func(s *State, call *CallCtx) (Value, bool)

// CallCtx describes a call being executed.
type CallCtx struct {
	Instr    ssa.Instruction
	Common   *ssa.CallCommon
	Name     string // canonical callee name
	Args     []Value
	Deferred bool
	ResType  types.Type
	Site     string
	// Alts, when set by a model, forks the path: one successor per
	// alternative, each returning its own result.
	Alts []func(s *State) Value
}

// CallMode is the treatment of a call.
type CallMode int

const (
	ModeAuto CallMode = iota
	ModeInline
	ModeOpaque
	ModeOpaquePanics // opaque, may panic with arbitrary value or Goexit
)

// Exec is the symbolic executor.
type Exec struct {
	// NilPanics: a panicking opaque call may panic with the nil value (Go < 1.21
	// semantics: recover() then returns nil). Off: A-panicnil.
	NilPanics bool
	Ctx       *Ctx
	Prog      *ssa.Program
	Specs     map[*ssa.Function]*FuncSpec
	Models    map[string]ModelFn
	SpecFuncs map[string]func(e *Env, args []Value) Value
	Sink      *Sink
	// Classify decides how a call with no spec / model is treated.
	Classify func(s *State, c *CallCtx, callee Value) CallMode
	// OnExit is called at every top-level exit of a verified function.
	OnExit func(s *State, f *Frame, kind string, results []Value)
	// OnEvent lets passes observe events as they are appended.
	MaxSteps    int
	MaxPaths    int
	InlineDepth int
	Safety      bool // generate implicit safety obligations (nil deref, bounds, type assert)

	// PureFunc reports whether an external function/method is a pure,
	// deterministic function of its arguments (results become uninterpreted
	// functions of the arguments instead of fresh values).
	PureFunc func(name string) bool
	// NilInterfaceSafety enables the nil-interface-method-call obligation.
	NilInterfaceSafety bool
	// NilReceiverPanics reports whether calling this external method on a nil
	// pointer receiver panics (a safety obligation is generated).
	NilReceiverPanics func(fn *ssa.Function) bool
	// NonNilResult reports whether an external function never returns nil
	// (assumed library postcondition).
	NonNilResult func(name string) bool
	// NoTypedNil reports whether interface values never hold a nil pointer of
	// this type (library invariant of go/types, go/ast values).
	NoTypedNil func(t types.Type) bool
	// MapValuesNonNil reports whether present entries of maps of this type are never nil.
	MapValuesNonNil func(t types.Type) bool
	// Aliases: per function, contract identifier -> current local name (renamed locals).
	Aliases map[*ssa.Function]map[string]string
	// FuncLabel overrides the function name used in obligation names.
	FuncLabel func(fn *ssa.Function) string
	// OnInstr is called before every instruction.
	OnInstr func(s *State, f *Frame, in ssa.Instruction)
	// OnLoopBack is called when a path reaches a loop header over a back edge.
	OnLoopBack func(s *State, f *Frame, lp *Loop)
	// OnInit is called on the initial state of a verified function.
	OnInit func(s *State, f *Frame)
	// ComparableIface reports whether values of this static interface type always
	// hold comparable dynamic types (library node / type / object interfaces hold pointers).
	ComparableIface func(t types.Type) bool
	// OnAlloc is called for every struct object allocated by the code under verification.
	OnAlloc func(s *State, id *Term, t types.Type)
	// FrameScope reports whether an opaque callee's body is scanned for the heap
	// components it may modify (which are then havocked at the call).
	FrameScope func(fn *ssa.Function) bool
	Goexit    bool // opaque panicking calls may also end the goroutine via runtime.Goexit
	ModelMods map[string][]string
	iters     map[string]*iterInfo

	cells    map[int64]*Cell
	funcs    map[int64]*FuncVal
	funcIDs  map[*ssa.Function]*FuncVal
	nextID   int64
	typeIDs  map[string]int64
	typeList []types.Type
	strIDs   map[string]int64
	globals  map[*types.Var]*Cell
	siteMaps map[*ssa.Function]*SiteMap
	loopInfo map[*ssa.Function]*LoopInfo
	paths    int
	Diag     []string
}

func NewExec(ctx *Ctx, prog *ssa.Program, sink *Sink) *Exec {
	x := &Exec{
		Ctx: ctx, Prog: prog, Sink: sink,
		Specs:       map[*ssa.Function]*FuncSpec{},
		Models:      map[string]ModelFn{},
		SpecFuncs:   map[string]func(e *Env, args []Value) Value{},
		MaxSteps:    200000,
		MaxPaths:    20000,
		InlineDepth: 8,
		Safety:      true,
		cells:       map[int64]*Cell{},
		funcs:       map[int64]*FuncVal{},
		funcIDs:     map[*ssa.Function]*FuncVal{},
		nextID:      objBase,
		typeIDs:     map[string]int64{},
		strIDs:      map[string]int64{},
		globals:     map[*types.Var]*Cell{},
		siteMaps:    map[*ssa.Function]*SiteMap{},
		loopInfo:    map[*ssa.Function]*LoopInfo{},
		ModelMods:   map[string][]string{},
		iters:       map[string]*iterInfo{},
	}
	ctx.DeclareFunc("typeof", []string{SInt}, SInt)
	ctx.DeclareFunc("dataof", []string{SInt}, SInt)
	ctx.DeclareFunc("box", []string{SInt, SInt}, SInt)
	ctx.AddAxiom(&Axiom{Name: "box", Triggers: []string{"box"}, Needs: []string{"typeof", "dataof"},
		Body: "(forall ((t Int) (d Int)) (! (and (= (typeof (box t d)) t) (= (dataof (box t d)) d) (=> (not (= t 0)) (> (box t d) 0))) :pattern ((box t d))))"})
	ctx.AddAxiom(&Axiom{Name: "typeof-nil", Triggers: []string{"typeof"}, Body: "(= (typeof 0) 0)"})
	return x
}

func (x *Exec) newID() int64 {
	x.nextID++
	return x.nextID
}

func (x *Exec) newCell(name string, typ types.Type) *Cell {
	c := &Cell{ID: -x.newID(), Name: name, Typ: typ}
	return c
}

func (x *Exec) regCell(c *Cell)          { x.cells[c.ID] = c }
func (x *Exec) cellByID(n int64) *Cell   { return x.cells[n] }
func (x *Exec) regFunc(f *FuncVal)       { x.funcs[f.ID] = f }
func (x *Exec) funcByID(n int64) *FuncVal { return x.funcs[n] }

func (x *Exec) staticFunc(fn *ssa.Function) *FuncVal {
	if f, ok := x.funcIDs[fn]; ok {
		return f
	}
	f := &FuncVal{Fn: fn, ID: x.newID()}
	x.funcIDs[fn] = f
	x.regFunc(f)
	return f
}

// deepUnalias removes alias names from a type expression: the dynamic type of
// an interface value is the aliased type (type noOutput = types.Struct).
func deepUnalias(t types.Type) types.Type {
	switch u := t.(type) {
	case *types.Alias:
		return deepUnalias(types.Unalias(u))
	case *types.Pointer:
		if e := deepUnalias(u.Elem()); e != u.Elem() {
			return types.NewPointer(e)
		}
	case *types.Slice:
		if e := deepUnalias(u.Elem()); e != u.Elem() {
			return types.NewSlice(e)
		}
	}
	return t
}

func (x *Exec) typeID(t types.Type) int64 {
	t = deepUnalias(t)
	k := types.TypeString(t, nil)
	if id, ok := x.typeIDs[k]; ok {
		return id
	}
	id := int64(len(x.typeIDs) + 1)
	x.typeIDs[k] = id
	x.typeList = append(x.typeList, t)
	if types.Comparable(t) {
		x.Ctx.DeclareFunc("comparable", []string{SInt}, SBool)
		x.Ctx.AddAxiom(&Axiom{Name: fmt.Sprintf("comparable-%d", id), Triggers: []string{"comparable"}, Body: fmt.Sprintf("(comparable %d)", id)})
	}
	return id
}

// ifaceCompareSafety: comparing two interface values panics when both hold the
// same dynamic type and that type is not comparable (slices, maps, functions,
// structs containing them). Emitted only where neither operand is the nil
// literal and the static interface type is not known to hold comparable values.
func (x *Exec) ifaceCompareSafety(s *State, f *Frame, in *ssa.BinOp) {
	if !x.Safety {
		return
	}
	it, ok := in.X.Type().Underlying().(*types.Interface)
	if !ok {
		return
	}
	_ = it
	isNil := func(v ssa.Value) bool { c, ok := v.(*ssa.Const); return ok && c.Value == nil }
	if isNil(in.X) || isNil(in.Y) {
		return
	}
	if x.ComparableIface != nil && x.ComparableIface(in.X.Type()) {
		return
	}
	a, b := x.scalar(x.val(s, f, in.X)), x.scalar(x.val(s, f, in.Y))
	x.Ctx.DeclareFunc("comparable", []string{SInt}, SBool)
	cond := Or(Eq(a, IntLit(0)), Eq(b, IntLit(0)), Neq(x.typeOfTerm(a), x.typeOfTerm(b)), App("comparable", SBool, x.typeOfTerm(a)))
	x.safety(s, f, in, "interface-comparison-of-uncomparable-values", cond)
}

func (x *Exec) typeIDByName(name string) int64 {
	if id, ok := x.typeIDs[name]; ok {
		return id
	}
	id := int64(len(x.typeIDs) + 1)
	x.typeIDs[name] = id
	x.typeList = append(x.typeList, nil)
	return id
}

func (x *Exec) typeOfTerm(t *Term) *Term { return App("typeof", SInt, t) }
func (x *Exec) dataOfTerm(t *Term) *Term { return App("dataof", SInt, t) }

func (x *Exec) stringConst(s string) *Term {
	if StringTheory {
		return Atom(smtStringLit(s), SString)
	}
	if s == "" {
		return IntLit(0)
	}
	if id, ok := x.strIDs[s]; ok {
		return IntLit(id)
	}
	id := int64(len(x.strIDs) + 1 + 5000000)
	x.strIDs[s] = id
	return IntLit(id)
}

// strByID recovers the Go string a string-constant term stands for.
func (x *Exec) strByID(t *Term) (string, bool) {
	if StringTheory {
		if t.IsAtom() && strings.HasPrefix(t.Op, "\"") {
			return strings.Trim(t.Op, "\""), true
		}
		return "", false
	}
	n, ok := t.IntVal()
	if !ok {
		return "", false
	}
	if n == 0 {
		return "", true
	}
	for s, id := range x.strIDs {
		if id == n {
			return s, true
		}
	}
	return "", false
}

func (x *Exec) globalPtr(v *types.Var) *PtrVal {
	c, ok := x.globals[v]
	if !ok {
		name := v.Name()
		if v.Pkg() != nil {
			name = v.Pkg().Name() + "." + name
		}
		c = &Cell{ID: -x.newID(), Name: "global." + name, Typ: v.Type()}
		x.globals[v] = c
	}
	return &PtrVal{Cell: c, Base: c.Typ, Typ: c.Typ}
}

func (x *Exec) diag(format string, a ...any) {
	x.Diag = append(x.Diag, fmt.Sprintf(format, a...))
}

// ---------------------------------------------------------------------
// value of an ssa.Value in a frame

func (x *Exec) val(s *State, f *Frame, v ssa.Value) Value {
	switch v := v.(type) {
	case *ssa.Const:
		return x.constOf(s, v)
	case *ssa.Function:
		return x.staticFunc(v)
	case *ssa.Global:
		obj, _ := v.Object().(*types.Var)
		if obj == nil {
			unsupported("global without object %s", v.Name())
		}
		return x.globalPtr(obj)
	case *ssa.Builtin:
		return S(Atom("builtin."+v.Name(), SInt))
	case *ssa.FreeVar:
		for i, fv := range f.Fn.FreeVars {
			if fv == v {
				return f.Free[i]
			}
		}
		unsupported("free var not bound: %s", v.Name())
	}
	r, ok := f.Regs[v]
	if !ok {
		unsupported("value %s (%T) not computed in %s", v.Name(), v, f.Fn.Name())
	}
	return r
}

func (x *Exec) constOf(s *State, c *ssa.Const) Value {
	t := c.Type()
	if c.Value == nil {
		return s.zeroValue(t)
	}
	switch c.Value.Kind() {
	case constant.Bool, constant.Int, constant.String, constant.Float:
		return x.constValue(c.Value, t)
	}
	unsupported("const %v", c)
	return nil
}

// ---------------------------------------------------------------------
// entry points

// VerifyFunction symbolically executes fn against its spec, emitting
// obligations to the sink.
func (x *Exec) VerifyFunction(fn *ssa.Function, spec *FuncSpec) (err error) {
	defer func() {
		if r := recover(); r != nil {
			if u, ok := r.(*Unsupported); ok {
				err = u
				return
			}
			if ee, ok := r.(*evalError); ok {
				err = fmt.Errorf("contract evaluation: %s", ee.msg)
				return
			}
			panic(r)
		}
	}()
	x.checkSites(fn, spec)
	s := x.initialState(fn, spec)
	x.run(s)
	return nil
}

// checkSites verifies that every site named by the contract binds to an
// instruction of the right shape; a missing site is a failed obligation
// (the protocol-shape clauses are obligations too).
func (x *Exec) checkSites(fn *ssa.Function, spec *FuncSpec) {
	if spec == nil {
		return
	}
	sm := x.sites(fn)
	for _, key := range spec.SiteList {
		ss := spec.Sites[key]
		base := key
		sub := ""
		if i := strings.Index(key, "."); i >= 0 && strings.Contains(key[:i], "#") {
			base, sub = key[:i], key[i+1:]
		} else if i := strings.LastIndex(key, "."); i >= 0 && strings.Contains(key[:i], "#") {
			base, sub = key[:i], key[i+1:]
		}
		var props []string
		seen := map[string]bool{}
		for _, c := range ss.Clauses {
			for _, p := range c.Props {
				if !seen[p] {
					seen[p] = true
					props = append(props, p)
				}
			}
			// a ghost update serves the properties of every clause that reads the ghost variable
			if c.Kind == "ghost" {
				for _, p := range ghostReaderProps(spec, rootIdent(c.GhostLHS)) {
					if !seen[p] {
						seen[p] = true
						props = append(props, p)
					}
				}
			}
		}
		fail := func(why string) {
			c := &Clause{Kind: "site-missing", Label: key, Func: x.funcName(fn), Text: why, Props: props}
			x.Sink.Instances = append(x.Sink.Instances, &Instance{Name: obName(x.Sink.Pass, c), Clause: c, Goal: False})
		}
		ok := func() {
			c := &Clause{Kind: "site-bound", Label: key, Func: x.funcName(fn), Props: props}
			x.Sink.Instances = append(x.Sink.Instances, &Instance{Name: obName(x.Sink.Pass, c), Clause: c, Goal: True})
		}
		if strings.HasSuffix(base, "#*") {
			// "call f *": every call of f in the function, whatever its ordinal -
			// for clauses that must not depend on the order of the sites
			any := false
			for k := range sm.All {
				if strings.HasPrefix(k, base[:len(base)-1]) {
					any = true
				}
			}
			if any {
				ok()
			} else {
				fail("no instruction binds to site " + base)
			}
			continue
		}
		in, found := sm.All[base]
		if !found {
			fail("no instruction binds to site " + base)
			continue
		}
		good := true
		if strings.HasPrefix(sub, "arm") {
			sel, isSel := in.(*ssa.Select)
			n := 0
			fmt.Sscanf(sub, "arm%d", &n)
			if !isSel || n < 1 || n > len(sel.States) {
				fail(fmt.Sprintf("select has no arm %d", n))
				continue
			}
			for _, c := range ss.Clauses {
				if c.Kind != "expect" {
					continue
				}
				want := strings.TrimSpace(c.Text)
				dir := "recv"
				if sel.States[n-1].Dir == types.SendOnly {
					dir = "send"
				}
				if want != dir {
					fail(fmt.Sprintf("select arm %d is a %s, contract expects %s", n, dir, want))
					good = false
				}
			}
		}
		if sub == "default" {
			sel, isSel := in.(*ssa.Select)
			if !isSel || sel.Blocking {
				fail("select has no default")
				continue
			}
		}
		if good {
			ok()
		}
	}
}

// ghostReaderProps: the property tags of the clauses of spec that mention ghost variable g.
func ghostReaderProps(spec *FuncSpec, g string) []string {
	if g == "" {
		return nil
	}
	var out []string
	add := func(c *Clause) {
		if c.Kind == "ghost" || len(c.Props) == 0 {
			return
		}
		for _, w := range strings.FieldsFunc(c.Text, func(r rune) bool {
			return !(r == '_' || r >= 'a' && r <= 'z' || r >= 'A' && r <= 'Z' || r >= '0' && r <= '9')
		}) {
			if w == g {
				out = append(out, c.Props...)
				return
			}
		}
	}
	for _, c := range spec.Requires {
		add(c)
	}
	for _, c := range spec.Ensures {
		add(c)
	}
	for _, ls := range spec.Loops {
		for _, c := range ls.Invariants {
			add(c)
		}
	}
	for _, ss := range spec.Sites {
		for _, c := range ss.Clauses {
			add(c)
		}
	}
	sort.Strings(out)
	return out
}

func (x *Exec) initialState(fn *ssa.Function, spec *FuncSpec) *State {
	s := &State{X: x, Heap: map[string]*Term{}, Cells: map[*Cell]Value{}, Ghost: map[string]Value{}, GhostTyp: map[string]string{}, Boxes: map[string]Value{}, Old: map[string]*Term{}, OldCells: map[*Cell]Value{}}
	f := x.newFrame(fn, spec)
	for _, p := range fn.Params {
		v := s.freshValue("p."+p.Name(), p.Type())
		// objects that exist at entry are distinct from those this function allocates (ids above objBase)
		if pv, ok := v.(*PtrVal); ok && pv.Cell == nil {
			s.Assume(Lt(pv.Ref, IntLit(objBase)))
		}
		f.Regs[p] = v
		f.Vars[p.Name()] = v
		f.EntryArgs = append(f.EntryArgs, v)
	}
	for _, fv := range fn.FreeVars {
		// free variables are pointers to captured cells
		pt, ok := fv.Type().Underlying().(*types.Pointer)
		if !ok {
			unsupported("free var of non-pointer type")
		}
		c := x.newCell("fv."+fv.Name(), pt.Elem())
		x.regCell(c)
		init := s.freshValue("fv0."+fv.Name(), pt.Elem())
		s.Cells[c] = init
		s.OldCells[c] = init
		pv := &PtrVal{Cell: c, Base: pt.Elem(), Typ: pt.Elem()}
		f.Free = append(f.Free, pv)
		f.Vars[fv.Name()] = pv
		f.VarAddr[fv.Name()] = true
	}
	// a recursive closure calls itself through the captured variable that holds it
	if spec != nil {
		if self := spec.Options["self-freevar"]; self != "" {
			for i, fv := range fn.FreeVars {
				if fv.Name() == self {
					if pv, ok := f.Free[i].(*PtrVal); ok && pv.Cell != nil {
						me := &FuncVal{Fn: fn, Free: f.Free, ID: x.newID()}
						x.regFunc(me)
						s.Cells[pv.Cell] = me
						s.OldCells[pv.Cell] = me
					}
				}
			}
		}
	}
	s.Frames = []*Frame{f}
	if x.OnInit != nil {
		x.OnInit(s, f)
	}
	x.initGhost(s, f, spec)
	env := s.NewEnv(f)
	if spec != nil {
		for _, c := range spec.Requires {
			t, err := env.EvalBool(c.Expr)
			if err != nil {
				evalErr("%s requires %s: %v", spec.Name, c.Label, err)
			}
			s.Assume(t)
		}
		for _, sd := range env.Side {
			s.Assume(sd)
		}
		x.Sink.Vacuity(x, fn, spec, "requires", s.PC)
	}
	return s
}

func (x *Exec) initGhost(s *State, f *Frame, spec *FuncSpec) {
	if spec == nil {
		return
	}
	env := s.NewEnv(f)
	for _, g := range spec.Ghosts {
		// ghost of a named struct type of the package: a (nil-initialised) pointer to it
		if tn := strings.TrimPrefix(g.Type, "*"); env.Pkg != nil && isIdent(tn) {
			if obj, ok := env.Pkg.Scope().Lookup(tn).(*types.TypeName); ok {
				if _, isStruct := obj.Type().Underlying().(*types.Struct); isStruct {
					s.Ghost[g.Name] = &PtrVal{Ref: IntLit(0), Base: obj.Type(), Typ: obj.Type()}
					s.GhostTyp[g.Name] = g.Type
					continue
				}
			}
		}
		sortS := ghostSort(g.Type)
		var v Value
		if strings.HasPrefix(sortS, "slice:") {
			es := sortS[len("slice:"):]
			v = &SliceVal{Arr: ConstArray(SArr(SInt, es), zeroTerm(es)), Len: IntLit(0), Cap: IntLit(0)}
		} else if g.Init != nil {
			if id, ok := g.Init.(*astIdent); ok && id.Name == "any" {
				v = S(x.Ctx.Fresh("ghost."+g.Name, sortS))
			} else {
				vv, err := env.EvalValue(g.Init)
				if err != nil {
					evalErr("ghost %s init: %v", g.Name, err)
				}
				v = vv
			}
		} else {
			v = S(zeroTerm(sortS))
		}
		s.Ghost[g.Name] = v
		s.GhostTyp[g.Name] = g.Type
	}
}

func (x *Exec) newFrame(fn *ssa.Function, spec *FuncSpec) *Frame {
	if len(fn.Blocks) == 0 {
		unsupported("function %s has no body", fn)
	}
	return &Frame{Fn: fn, Regs: map[ssa.Value]Value{}, Block: fn.Blocks[0], Vars: map[string]Value{}, VarAddr: map[string]bool{}, Counts: map[string]int{}, Spec: spec, OpenLoops: map[*ssa.BasicBlock]bool{}}
}

func (x *Exec) run(s0 *State) {
	work := []*State{s0}
	for len(work) > 0 {
		s := work[len(work)-1]
		work = work[:len(work)-1]
		if s.Dead {
			continue
		}
		succ := x.execUntilFork(s)
		work = append(work, succ...)
		if x.paths > x.MaxPaths {
			unsupported("path limit exceeded")
		}
	}
}

// execUntilFork runs one state until it terminates or forks.
func (x *Exec) execUntilFork(s *State) []*State {
	for {
		if s.Dead || len(s.Frames) == 0 {
			x.paths++
			return nil
		}
		s.Steps++
		if s.Steps > x.MaxSteps {
			unsupported("step limit exceeded in %s", s.Frames[0].Fn.Name())
		}
		f := s.top()
		if f.Idx >= len(f.Block.Instrs) {
			unsupported("fell off block %d of %s", f.Block.Index, f.Fn.Name())
		}
		instr := f.Block.Instrs[f.Idx]
		if debugOn {
			fmt.Fprintf(os.Stderr, "[%p d=%d] %s.%d.%d: %s   panic=%v\n", s, len(s.Frames), f.Fn.Name(), f.Block.Index, f.Idx, instr, s.Panic != nil)
		}
		if x.OnInstr != nil {
			x.OnInstr(s, f, instr)
		}
		forks := x.step(s, f, instr)
		if forks != nil {
			return forks
		}
	}
}

// enterBlock transfers control in frame f to block b; returns forks or nil.
func (x *Exec) enterBlock(s *State, f *Frame, b *ssa.BasicBlock) []*State {
	f.Prev = f.Block
	f.Block = b
	f.Idx = 0
	s.Trace = append(s.Trace, fmt.Sprintf("%s.%d", f.Fn.Name(), b.Index))
	// evaluate phis simultaneously
	var phiVals []Value
	var phis []*ssa.Phi
	for _, in := range b.Instrs {
		phi, ok := in.(*ssa.Phi)
		if !ok {
			break
		}
		idx := -1
		for i, p := range b.Preds {
			if p == f.Prev {
				idx = i
				break
			}
		}
		if idx < 0 {
			unsupported("phi: predecessor not found")
		}
		phis = append(phis, phi)
		phiVals = append(phiVals, x.val(s, f, phi.Edges[idx]))
	}
	for i, phi := range phis {
		f.Regs[phi] = phiVals[i]
		if c := phi.Comment; c != "" && isIdent(c) {
			f.Vars[c] = phiVals[i]
			f.VarAddr[c] = false
		}
	}
	f.Idx = len(phis)
	li := x.loops(f.Fn)
	// close loops we have left
	for h := range f.OpenLoops {
		if !li.Body[h][b] {
			delete(f.OpenLoops, h)
		}
	}
	if lp := li.ByHeader[b]; lp != nil {
		return x.atLoopHeader(s, f, lp, phis)
	}
	return nil
}

func isIdent(s string) bool {
	if s == "" {
		return false
	}
	for i, r := range s {
		if !(r == '_' || r >= 'a' && r <= 'z' || r >= 'A' && r <= 'Z' || (i > 0 && r >= '0' && r <= '9')) {
			return false
		}
	}
	return true
}

// step executes one instruction. It returns non-nil (possibly empty) when the
// state forked or terminated; nil to continue with the same state.
func (x *Exec) step(s *State, f *Frame, instr ssa.Instruction) []*State {
	switch in := instr.(type) {
	case *ssa.DebugRef:
		if id, ok := in.Expr.(*astIdent); ok {
			if obj := in.Object(); obj != nil {
				if _, isVar := obj.(*types.Var); isVar {
					v := x.val(s, f, in.X)
					// a variable that lives in a cell (captured or address-taken) stays bound to
					// the cell: a later debug reference to a loaded copy must not freeze its value
					if old, ok := f.Vars[id.Name].(*PtrVal); ok && f.VarAddr[id.Name] && !in.IsAddr && old.Cell != nil && old.Cell.Name == id.Name {
						f.Idx++
						return nil
					}
					f.Vars[id.Name] = v
					f.VarAddr[id.Name] = in.IsAddr
				}
			}
		}
		f.Idx++
		return nil
	case *ssa.Alloc:
		f.Regs[in] = x.alloc(s, f, in)
		f.Idx++
		return nil
	case *ssa.Store:
		addr := x.val(s, f, in.Addr)
		v := x.val(s, f, in.Val)
		p, ok := addr.(*PtrVal)
		if !ok {
			unsupported("store through %s", valueString(addr))
		}
		x.checkNonNil(s, f, p, in)
		s.StoreTo(p, v)
		if forks := x.siteHooks(s, f, in, "store", storeFieldName(in), map[string]Value{"val": v, "target": storeTarget(p)}, nil); forks != nil {
			return forks
		}
		f.Idx++
		return nil
	case *ssa.UnOp:
		return x.unop(s, f, in)
	case *ssa.BinOp:
		if in.Op == token.EQL || in.Op == token.NEQ {
			x.ifaceCompareSafety(s, f, in)
		}
		f.Regs[in] = x.binop(s, in.Op, x.val(s, f, in.X), x.val(s, f, in.Y), in.X.Type())
		f.Idx++
		return nil
	case *ssa.FieldAddr:
		base := x.val(s, f, in.X)
		p, ok := base.(*PtrVal)
		if !ok {
			unsupported("fieldaddr of %s", valueString(base))
		}
		x.checkNonNil(s, f, p, in)
		st := p.Typ.Underlying().(*types.Struct)
		np := *p
		np.Path = append(append([]PathElem(nil), p.Path...), PathElem{Field: in.Field})
		np.Typ = st.Field(in.Field).Type()
		f.Regs[in] = &np
		f.Idx++
		return nil
	case *ssa.Field:
		base := x.val(s, f, in.X)
		sv, ok := base.(*StructVal)
		if !ok {
			unsupported("field of %s", valueString(base))
		}
		f.Regs[in] = sv.Fields[in.Field]
		f.Idx++
		return nil
	case *ssa.IndexAddr:
		f.Regs[in] = x.indexAddr(s, f, in)
		f.Idx++
		return nil
	case *ssa.Index:
		base := x.val(s, f, in.X)
		idx := x.scalar(x.val(s, f, in.Index))
		switch b := base.(type) {
		case *ArrayVal:
			x.safety(s, f, in, "index", And(Le(IntLit(0), idx), Lt(idx, IntLit(b.N))))
			f.Regs[in] = s.unreify(Select(b.Arr, idx), b.Elem)
		default:
			// string indexing etc: opaque
			f.Regs[in] = s.freshValue("index", in.Type())
		}
		f.Idx++
		return nil
	case *ssa.Slice:
		f.Regs[in] = x.sliceOp(s, f, in)
		if f.Spec != nil {
			bind := map[string]Value{}
			if in.Low != nil {
				bind["low"] = x.val(s, f, in.Low)
			} else {
				bind["low"] = S(IntLit(0))
			}
			if bsl, ok := x.val(s, f, in.X).(*SliceVal); ok {
				bind["baselen"] = S(bsl.Len)
				bind["high"] = S(bsl.Len)
			}
			if in.High != nil {
				bind["high"] = x.val(s, f, in.High)
			}
			x.siteHooks(s, f, in, "slice", "", bind, nil)
		}
		f.Idx++
		return nil
	case *ssa.MakeInterface:
		f.Regs[in] = x.makeInterface(s, x.val(s, f, in.X), in.X.Type())
		f.Idx++
		return nil
	case *ssa.ChangeInterface:
		f.Regs[in] = x.val(s, f, in.X)
		f.Idx++
		return nil
	case *ssa.ChangeType:
		f.Regs[in] = x.retype(s, x.val(s, f, in.X), in.Type())
		f.Idx++
		return nil
	case *ssa.Convert:
		f.Regs[in] = x.convert(s, x.val(s, f, in.X), in.X.Type(), in.Type())
		f.Idx++
		return nil
	case *ssa.TypeAssert:
		return x.typeAssert(s, f, in)
	case *ssa.MakeSlice:
		ln := x.scalar(x.val(s, f, in.Len))
		cp := x.scalar(x.val(s, f, in.Cap))
		x.safety(s, f, in, "makeslice", And(Le(IntLit(0), ln), Le(ln, cp)))
		et := in.Type().Underlying().(*types.Slice).Elem()
		es := sortOfType(et)
		c := x.newCell("makeslice", types.NewArray(et, 0))
		x.regCell(c)
		s.Cells[c] = &ArrayVal{Arr: ConstArray(SArr(SInt, es), zeroTerm(es)), N: -1, Elem: et}
		f.Regs[in] = &SliceVal{Len: ln, Cap: cp, Backing: c, Elem: et}
		f.Idx++
		return nil
	case *ssa.MakeChan:
		id := IntLit(x.newID())
		sz := x.scalar(x.val(s, f, in.Size))
		s.setHeapComp("chan.cap", Store(s.heapComp("chan.cap", SArr(SInt, SInt)), id, sz))
		s.setHeapComp("chan.closed", Store(s.heapComp("chan.closed", SArr(SInt, SBool)), id, False))
		s.Events = append(s.Events, Event{Kind: "makechan", Name: in.Type().String(), Args: []Value{S(id), S(sz)}, Instr: in})
		f.Regs[in] = S(id)
		f.Idx++
		return nil
	case *ssa.MakeMap:
		id := IntLit(x.newID())
		x.mapInit(s, id, in.Type())
		f.Regs[in] = S(id)
		f.Idx++
		return nil
	case *ssa.MakeClosure:
		fn := in.Fn.(*ssa.Function)
		fv := &FuncVal{Fn: fn, ID: x.newID()}
		for _, b := range in.Bindings {
			fv.Free = append(fv.Free, x.val(s, f, b))
		}
		x.regFunc(fv)
		f.Regs[in] = fv
		f.Idx++
		return nil
	case *ssa.Lookup:
		f.Regs[in] = x.mapLookup(s, f, in)
		f.Idx++
		return nil
	case *ssa.MapUpdate:
		x.mapUpdate(s, f, in)
		x.siteHooks(s, f, in, "mapupdate", "", map[string]Value{"key": x.val(s, f, in.Key), "val": x.val(s, f, in.Value), "m": x.val(s, f, in.Map)}, nil)
		f.Idx++
		return nil
	case *ssa.Range:
		f.Regs[in] = x.rangeInit(s, f, in)
		f.Idx++
		return nil
	case *ssa.Next:
		f.Regs[in] = x.rangeNext(s, f, in)
		f.Idx++
		return nil
	case *ssa.Extract:
		t := x.val(s, f, in.Tuple)
		tv, ok := t.(TupleVal)
		if !ok {
			unsupported("extract from %s", valueString(t))
		}
		f.Regs[in] = tv[in.Index]
		f.Idx++
		return nil
	case *ssa.Phi:
		unsupported("phi in the middle of a block")
	case *ssa.Call:
		return x.call(s, f, in, &in.Call, false)
	case *ssa.Go:
		cc := x.callCtx(s, f, in, &in.Call)
		callee := x.calleeValue(s, f, &in.Call)
		s.Events = append(s.Events, Event{Kind: "go", Name: cc.Name, Args: cc.Args, Instr: in, Callee: callee})
		if forks := x.siteHooks(s, f, in, "go", "", argBindings(cc.Args), nil); forks != nil {
			return forks
		}
		f.Idx++
		return nil
	case *ssa.Defer:
		cc := x.callCtx(s, f, in, &in.Call)
		callee := x.calleeValue(s, f, &in.Call)
		f.Defers = append(f.Defers, DeferRec{Call: &in.Call, Fn: callee, Args: cc.Args, Instr: in})
		f.Idx++
		return nil
	case *ssa.RunDefers:
		f.RunningDefers = true
		f.DeferResume = 0
		return x.continueDefers(s)
	case *ssa.Send:
		ch := x.val(s, f, in.Chan)
		v := x.val(s, f, in.X)
		if forks := x.chanSend(s, f, in, ch, v, "send", ""); forks != nil {
			return forks
		}
		f.Idx++
		return nil
	case *ssa.Select:
		return x.selectOp(s, f, in)
	case *ssa.If:
		c := x.scalar(x.val(s, f, in.Cond))
		tb, fb := f.Block.Succs[0], f.Block.Succs[1]
		if c.IsTrue() {
			return x.enterBlock(s, f, tb)
		}
		if c.IsFalse() {
			return x.enterBlock(s, f, fb)
		}
		s2 := s.Fork()
		s.Assume(c)
		s2.Assume(Not(c))
		var out []*State
		if r := x.enterBlock(s, f, tb); r != nil {
			out = append(out, r...)
		} else {
			out = append(out, s)
		}
		f2 := s2.top()
		if r := x.enterBlock(s2, f2, fb); r != nil {
			out = append(out, r...)
		} else {
			out = append(out, s2)
		}
		return out
	case *ssa.Jump:
		return x.enterBlock(s, f, f.Block.Succs[0])
	case *ssa.Return:
		var res []Value
		for _, r := range in.Results {
			res = append(res, x.val(s, f, r))
		}
		if forks := x.siteHooks(s, f, in, "return", "", nil, nil); forks != nil {
			return forks
		}
		return x.doReturn(s, f, res, in)
	case *ssa.Panic:
		v := x.scalar(x.val(s, f, in.X))
		s.Panic = &PanicInfo{Val: v, Desc: "explicit panic"}
		return x.unwind(s)
	}
	unsupported("instruction %T (%s) in %s", instr, instr, f.Fn.Name())
	return nil
}

func (x *Exec) scalar(v Value) *Term {
	switch v := v.(type) {
	case *Scalar:
		return v.T
	case *PtrVal:
		if v.Cell == nil && len(v.Path) == 0 {
			return v.Ref
		}
		if v.Cell != nil && len(v.Path) == 0 {
			x.regCell(v.Cell)
			return IntLit(v.Cell.ID)
		}
	case *FuncVal:
		x.regFunc(v)
		return IntLit(v.ID)
	}
	unsupported("expected scalar value, got %s", valueString(v))
	return nil
}

func (x *Exec) alloc(s *State, f *Frame, in *ssa.Alloc) Value {
	et := in.Type().Underlying().(*types.Pointer).Elem()
	if _, isStruct := et.Underlying().(*types.Struct); isStruct {
		id := IntLit(x.newID())
		p := &PtrVal{Ref: id, Base: et, Typ: et}
		s.StoreTo(p, s.zeroValue(et))
		if x.OnAlloc != nil {
			x.OnAlloc(s, id, et)
		}
		if isIdent(in.Comment) {
			f.Vars[in.Comment] = p
			f.VarAddr[in.Comment] = true
		}
		return p
	}
	c := x.newCell(in.Comment, et)
	x.regCell(c)
	s.Cells[c] = s.zeroValue(et)
	p := &PtrVal{Cell: c, Base: et, Typ: et}
	if isIdent(in.Comment) {
		f.Vars[in.Comment] = p
		f.VarAddr[in.Comment] = true
	}
	return p
}

func storeFieldName(in *ssa.Store) string {
	if fa, ok := in.Addr.(*ssa.FieldAddr); ok {
		st := fa.X.Type().Underlying().(*types.Pointer).Elem().Underlying().(*types.Struct)
		return st.Field(fa.Field).Name()
	}
	return ""
}

func storeTarget(p *PtrVal) Value {
	if p.Cell != nil {
		return &PtrVal{Cell: p.Cell, Base: p.Base, Typ: p.Base}
	}
	return &PtrVal{Ref: p.Ref, Base: p.Base, Typ: p.Base}
}

// checkNonNil emits a nil-dereference safety obligation for heap pointers.
func (x *Exec) checkNonNil(s *State, f *Frame, p *PtrVal, in ssa.Instruction) {
	if p.Cell != nil || p.Ref == nil {
		return
	}
	if n, ok := p.Ref.IntVal(); ok && n != 0 {
		return
	}
	if len(p.Path) > 0 {
		return // already checked when the path was started
	}
	x.safety(s, f, in, "nil-deref", Neq(p.Ref, IntLit(0)))
}

// safety records an implicit safety obligation and then assumes it.
func (x *Exec) safety(s *State, f *Frame, in ssa.Instruction, kind string, cond *Term) {
	if cond.IsTrue() {
		return
	}
	if x.Safety && !(s.Frames[0].Spec != nil && s.Frames[0].Spec.Options["nosafety"] != "") {
		x.Sink.Assert(s, f, &Clause{Kind: "safety", Label: kind, Func: x.funcName(s.Frames[0].Fn)}, cond, in)
	}
	s.Assume(cond)
}

func (x *Exec) funcName(fn *ssa.Function) string {
	if x.FuncLabel != nil {
		if l := x.FuncLabel(fn); l != "" {
			return l
		}
	}
	if fn.Pkg != nil {
		return fn.RelString(fn.Pkg.Pkg)
	}
	return fn.String()
}

func (x *Exec) unop(s *State, f *Frame, in *ssa.UnOp) []*State {
	v := x.val(s, f, in.X)
	switch in.Op {
	case token.MUL:
		p, ok := v.(*PtrVal)
		if !ok {
			unsupported("load through %s", valueString(v))
		}
		x.checkNonNil(s, f, p, in)
		f.Regs[in] = s.Load(p)
	case token.NOT:
		f.Regs[in] = S(Not(x.scalar(v)))
	case token.SUB:
		f.Regs[in] = S(Sub(IntLit(0), x.scalar(v)))
	case token.ARROW:
		res, forks := x.chanRecv(s, f, in, v, in.CommaOk, in.Type(), "recv", "")
		if forks != nil {
			return forks
		}
		f.Regs[in] = res
	case token.XOR:
		f.Regs[in] = s.freshValue("xor", in.Type())
	default:
		unsupported("unop %s", in.Op)
	}
	f.Idx++
	return nil
}

func (x *Exec) binop(s *State, op token.Token, a, b Value, operandType types.Type) Value {
	switch op {
	case token.EQL:
		return S(s.valueEq(a, b))
	case token.NEQ:
		return S(Not(s.valueEq(a, b)))
	}
	ta, tb := x.scalar(a), x.scalar(b)
	isString := false
	if bt, ok := operandType.Underlying().(*types.Basic); ok && bt.Info()&types.IsString != 0 {
		isString = true
	}
	isFloat := false
	if bt, ok := operandType.Underlying().(*types.Basic); ok && bt.Info()&(types.IsFloat|types.IsComplex) != 0 {
		isFloat = true
	}
	if isString && StringTheory {
		switch op {
		case token.ADD:
			return S(App("str.++", SString, ta, tb))
		case token.LSS:
			return S(App("str.<", SBool, ta, tb))
		}
	}
	if isString || isFloat {
		x.Ctx.DeclareFunc("opaque."+opName(op), []string{SInt, SInt}, resultSort(op))
		r := App("opaque."+opName(op), resultSort(op), ta, tb)
		if isString && op == token.ADD {
			// opaque strings: "" is 0; a concatenation is empty only if both parts are
			s.Assume(Implies(Or(Neq(ta, IntLit(0)), Neq(tb, IntLit(0))), Neq(r, IntLit(0))))
		}
		return S(r)
	}
	switch op {
	case token.ADD:
		return S(Add(ta, tb))
	case token.SUB:
		return S(Sub(ta, tb))
	case token.MUL:
		return S(Mul(ta, tb))
	case token.LSS:
		return S(Lt(ta, tb))
	case token.LEQ:
		return S(Le(ta, tb))
	case token.GTR:
		return S(Gt(ta, tb))
	case token.GEQ:
		return S(Ge(ta, tb))
	case token.AND:
		if ta.Sort == SBool {
			return S(And(ta, tb))
		}
	case token.OR:
		if ta.Sort == SBool {
			return S(Or(ta, tb))
		}
	case token.QUO:
		return S(App("div", SInt, ta, tb))
	case token.REM:
		return S(App("mod", SInt, ta, tb))
	}
	// bit operations etc: opaque
	x.Ctx.DeclareFunc("opaque."+opName(op), []string{SInt, SInt}, SInt)
	return S(App("opaque."+opName(op), SInt, ta, tb))
}

func resultSort(op token.Token) string {
	switch op {
	case token.LSS, token.LEQ, token.GTR, token.GEQ:
		return SBool
	}
	return SInt
}

func opName(op token.Token) string {
	switch op {
	case token.ADD:
		return "add"
	case token.SUB:
		return "sub"
	case token.MUL:
		return "mul"
	case token.QUO:
		return "quo"
	case token.REM:
		return "rem"
	case token.AND:
		return "and"
	case token.OR:
		return "or"
	case token.XOR:
		return "xor"
	case token.SHL:
		return "shl"
	case token.SHR:
		return "shr"
	case token.AND_NOT:
		return "andnot"
	case token.LSS:
		return "lt"
	case token.LEQ:
		return "le"
	case token.GTR:
		return "gt"
	case token.GEQ:
		return "ge"
	}
	return "op"
}

func (x *Exec) indexAddr(s *State, f *Frame, in *ssa.IndexAddr) Value {
	base := x.val(s, f, in.X)
	idx := x.scalar(x.val(s, f, in.Index))
	switch b := base.(type) {
	case *PtrVal: // pointer to array
		at, ok := b.Typ.Underlying().(*types.Array)
		if !ok {
			unsupported("indexaddr on pointer to %s", b.Typ)
		}
		x.safety(s, f, in, "index", And(Le(IntLit(0), idx), Lt(idx, IntLit(at.Len()))))
		np := *b
		np.Path = append(append([]PathElem(nil), b.Path...), PathElem{Field: -1, Index: idx})
		np.Typ = at.Elem()
		return &np
	case *SliceVal:
		x.safety(s, f, in, "index", And(Le(IntLit(0), idx), Lt(idx, b.Len)))
		if b.Backing != nil {
			return &PtrVal{Cell: b.Backing, Base: b.Backing.Typ, Typ: b.Elem, Path: []PathElem{{Field: -1, Index: idx}}}
		}
		// read-only element of a value-semantic slice: materialise a temp cell
		c := x.newCell("slice-elem", b.Elem)
		s.Cells[c] = s.unreify(Select(b.Arr, idx), b.Elem)
		return &PtrVal{Cell: c, Base: b.Elem, Typ: b.Elem}
	}
	unsupported("indexaddr on %s", valueString(base))
	return nil
}

func (x *Exec) sliceOp(s *State, f *Frame, in *ssa.Slice) Value {
	base := x.val(s, f, in.X)
	var lo, hi *Term
	if in.Low != nil {
		lo = x.scalar(x.val(s, f, in.Low))
	}
	if in.High != nil {
		hi = x.scalar(x.val(s, f, in.High))
	}
	switch b := base.(type) {
	case *PtrVal: // pointer to array
		at, ok := b.Typ.Underlying().(*types.Array)
		if !ok || b.Cell == nil || len(b.Path) != 0 {
			unsupported("slice of %s", valueString(base))
		}
		if lo != nil {
			if n, ok := lo.IntVal(); !ok || n != 0 {
				unsupported("array slice with non-zero low bound")
			}
		}
		ln := IntLit(at.Len())
		if hi != nil {
			ln = hi
		}
		// make the cell's array length-agnostic
		return &SliceVal{Len: ln, Cap: IntLit(at.Len()), Backing: b.Cell, Elem: at.Elem()}
	case *SliceVal:
		sl := s.sliceSnapshot(b)
		if hi == nil {
			hi = sl.Len
		}
		if lo == nil {
			lo = IntLit(0)
		}
		x.safety(s, f, in, "slice-bounds", And(Le(IntLit(0), lo), Le(lo, hi), Le(hi, sl.Cap)))
		if n, ok := lo.IntVal(); ok && n == 0 {
			return &SliceVal{Arr: sl.Arr, Len: hi, Cap: sl.Cap, Elem: sl.Elem, Backing: b.Backing}
		}
		// shifted view: fresh array with a quantified link
		es := sortOfType(sl.Elem)
		na := x.Ctx.Fresh("shift", SArr(SInt, es))
		i := Atom("q_i", SInt)
		s.Assume(Forall([]*Term{i}, Eq(Select(na, i), Select(sl.Arr, Add(i, lo)))))
		return &SliceVal{Arr: na, Len: Sub(hi, lo), Cap: Sub(sl.Cap, lo), Elem: sl.Elem}
	case *Scalar:
		// string slicing: opaque
		return s.freshValue("strslice", in.Type())
	}
	unsupported("slice of %s", valueString(base))
	return nil
}

func (x *Exec) makeInterface(s *State, v Value, from types.Type) Value {
	if _, isIface := from.Underlying().(*types.Interface); isIface {
		return v
	}
	tid := IntLit(x.typeID(from))
	var data *Term
	switch vv := v.(type) {
	case *Scalar:
		data = vv.T
		if data.Sort == SBool {
			data = Ite(data, IntLit(1), IntLit(0))
		}
	default:
		data = s.reify(v, from)
	}
	b := App("box", SInt, tid, data)
	return S(b)
}

func (x *Exec) retype(s *State, v Value, to types.Type) Value {
	// ChangeType keeps the representation; pointers change their static base only
	if p, ok := v.(*PtrVal); ok {
		if pt, ok := to.Underlying().(*types.Pointer); ok && len(p.Path) == 0 && p.Cell == nil {
			return &PtrVal{Ref: p.Ref, Base: pt.Elem(), Typ: pt.Elem()}
		}
	}
	return v
}

func (x *Exec) convert(s *State, v Value, from, to types.Type) Value {
	fb, ok1 := from.Underlying().(*types.Basic)
	tb, ok2 := to.Underlying().(*types.Basic)
	if ok1 && ok2 && fb.Info()&types.IsInteger != 0 && tb.Info()&types.IsInteger != 0 {
		return v // A-int: conversions between integer kinds are value-preserving
	}
	if ok1 && ok2 && fb.Info()&types.IsString != 0 && tb.Info()&types.IsString != 0 {
		return v
	}
	if _, isPtr := to.Underlying().(*types.Pointer); isPtr {
		return x.retype(s, v, to)
	}
	// string <-> []byte, numeric <-> float etc: opaque function of the input
	return s.freshValue("conv", to)
}

func (x *Exec) typeAssert(s *State, f *Frame, in *ssa.TypeAssert) []*State {
	v := x.scalar(x.val(s, f, in.X))
	var cond *Term
	var res Value
	if _, isIface := in.AssertedType.Underlying().(*types.Interface); isIface {
		name := "implements." + sanitize(types.TypeString(in.AssertedType, nil))
		x.Ctx.DeclareFunc(name, []string{SInt}, SBool)
		cond = And(Neq(v, IntLit(0)), App(name, SBool, x.typeOfTerm(v)))
		if it, ok := in.AssertedType.Underlying().(*types.Interface); ok && it.NumMethods() == 0 {
			cond = Neq(v, IntLit(0))
		}
		res = S(v)
	} else {
		tid := IntLit(x.typeID(in.AssertedType))
		cond = Eq(x.typeOfTerm(v), tid)
		d := x.dataOfTerm(v)
		if sortOfType(in.AssertedType) == SBool {
			res = S(Eq(d, IntLit(1)))
		} else {
			res = s.unreify(d, in.AssertedType)
		}
	}
	if x.NoTypedNil != nil && x.NoTypedNil(in.AssertedType) {
		if p, ok := res.(*PtrVal); ok && p.Cell == nil {
			s.Assume(Implies(cond, Neq(p.Ref, IntLit(0))))
		}
	}
	if in.CommaOk {
		// value is zero when !ok
		var rv Value
		if cond.IsTrue() {
			rv = res
		} else if sc, ok := res.(*Scalar); ok {
			rv = S(Ite(cond, sc.T, zeroTerm(sc.T.Sort)))
		} else if p, ok := res.(*PtrVal); ok && p.Cell == nil {
			rv = &PtrVal{Ref: Ite(cond, p.Ref, IntLit(0)), Base: p.Base, Typ: p.Typ}
		} else {
			rv = res
		}
		f.Regs[in] = TupleVal{rv, S(cond)}
		f.Idx++
		return nil
	}
	x.safety(s, f, in, "type-assert", cond)
	f.Regs[in] = res
	f.Idx++
	return nil
}

// ---------------------------------------------------------------------
// returns, defers, panics

func (x *Exec) doReturn(s *State, f *Frame, res []Value, in ssa.Instruction) []*State {
	// pop frame
	s.Frames = s.Frames[:len(s.Frames)-1]
	if len(s.Frames) == 0 {
		kind := "return"
		if f.Recovered {
			kind = "recovered"
		}
		x.exitTop(s, f, kind, res, in)
		return []*State{}
	}
	parent := s.top()
	if f.IsDeferred {
		return x.continueDefers(s)
	}
	if f.CallInstr != nil {
		if v, ok := f.CallInstr.(ssa.Value); ok {
			switch len(res) {
			case 0:
			case 1:
				parent.Regs[v] = res[0]
			default:
				parent.Regs[v] = TupleVal(res)
			}
		}
		if forks := x.afterCall(s, parent, f.CallInstr, res); forks != nil {
			return forks
		}
		parent.Idx++
	}
	return nil
}

// continueDefers runs the next deferred call of the top frame, or finishes
// the defer phase.
func (x *Exec) continueDefers(s *State) []*State {
	for {
		f := s.top()
		if len(f.Defers) == 0 {
			f.RunningDefers = false
			if s.Panic != nil {
				// keep unwinding into the caller
				s.Frames = s.Frames[:len(s.Frames)-1]
				if len(s.Frames) == 0 {
					x.exitTop(s, f, "panic", nil, nil)
					return []*State{}
				}
				if f.IsDeferred {
					// a panic escaped a deferred call: the parent keeps
					// running its remaining defers, now panicking
					p := s.top()
					p.DeferResume = 1
					continue
				}
				return x.unwind(s)
			}
			if f.DeferResume == 0 && !f.Recovered {
				f.Idx++
				return nil
			}
			// recovered: return through the Recover block
			f.Recovered = true
			if f.Fn.Recover != nil {
				f.Prev = f.Block
				f.Block = f.Fn.Recover
				f.Idx = 0
				return nil
			}
			var res []Value
			rt := f.Fn.Signature.Results()
			for i := 0; i < rt.Len(); i++ {
				res = append(res, s.zeroValue(rt.At(i).Type()))
			}
			return x.doReturn(s, f, res, nil)
		}
		d := f.Defers[len(f.Defers)-1]
		f.Defers = f.Defers[:len(f.Defers)-1]
		cc := &CallCtx{Instr: d.Instr, Common: d.Call, Args: d.Args, Deferred: true}
		cc.Name = x.calleeName(d.Call, d.Fn)
		forks, pushed := x.invoke(s, f, cc, d.Fn)
		if forks != nil {
			return forks
		}
		if pushed {
			return nil
		}
		// handled inline (builtin/model/opaque): loop for the next defer
		if s.Dead {
			return []*State{}
		}
	}
}

// unwind starts/continues panic propagation in the top frame.
func (x *Exec) unwind(s *State) []*State {
	f := s.top()
	f.RunningDefers = true
	f.DeferResume = 1
	return x.continueDefers(s)
}

// exitTop handles an exit of the function under verification.
func (x *Exec) exitTop(s *State, f *Frame, kind string, res []Value, in ssa.Instruction) {
	x.paths++
	if x.OnExit != nil {
		x.OnExit(s, f, kind, res)
	}
	spec := f.Spec
	if kind == "panic" {
		if spec == nil || !spec.MayPanic {
			desc := "panic"
			if s.Panic != nil {
				desc = s.Panic.Desc
			}
			x.Sink.Assert(s, f, &Clause{Kind: "ensures", Label: "no-escaping-panic", Func: x.funcName(f.Fn), Text: "no panic escapes (" + desc + ")", Props: specProps(spec)}, False, in)
		}
	}
	if spec == nil {
		return
	}
	env := s.NewEnv(f)
	switch len(res) {
	case 0:
	case 1:
		env.Bound["result"] = res[0]
	default:
		env.Bound["result"] = TupleVal(res)
		for i, r := range res {
			env.Bound[fmt.Sprintf("result%d", i)] = r
		}
	}
	retOrd := 0
	if ri, ok := in.(*ssa.Return); ok {
		retOrd = x.sites(f.Fn).Ordinal[ri]
	}
	for _, c := range spec.Ensures {
		switch {
		case c.Exit == "any":
		case c.Exit == "panic":
			if kind != "panic" {
				continue
			}
		case strings.HasPrefix(c.Exit, "return"):
			if kind == "panic" || c.Exit != fmt.Sprintf("return%d", retOrd) {
				continue
			}
		case c.Exit == "recovered":
			if kind != "recovered" {
				continue
			}
		default:
			if kind == "panic" {
				continue
			}
		}
		env.Side = nil
		t, err := env.EvalBool(c.Expr)
		if err != nil {
			evalErr("%s ensures %s: %v", spec.Name, c.Label, err)
		}
		for _, sd := range env.Side {
			s.Assume(sd)
		}
		x.Sink.Assert(s, f, c, t, in)
	}
}

func specProps(spec *FuncSpec) []string {
	if spec == nil {
		return nil
	}
	if p, ok := spec.Options["panic-props"]; ok {
		return parseProps(p)
	}
	return nil
}

// ---------------------------------------------------------------------
// site enumeration

// SiteMap assigns ordinals to instructions per site kind, in source order.
type SiteMap struct {
	Ordinal map[ssa.Instruction]int
	Keys    map[ssa.Instruction][]string
	All     map[string]ssa.Instruction
}

func (x *Exec) sites(fn *ssa.Function) *SiteMap {
	if sm, ok := x.siteMaps[fn]; ok {
		return sm
	}
	sm := &SiteMap{Ordinal: map[ssa.Instruction]int{}, Keys: map[ssa.Instruction][]string{}, All: map[string]ssa.Instruction{}}
	type item struct {
		in   ssa.Instruction
		kind string
		name string
		pos  token.Pos
		seq  int
	}
	var items []item
	seq := 0
	for _, b := range fn.Blocks {
		for _, in := range b.Instrs {
			seq++
			switch in := in.(type) {
			case *ssa.Select:
				items = append(items, item{in, "select", "", in.Pos(), seq})
			case *ssa.Send:
				items = append(items, item{in, "send", "", in.Pos(), seq})
			case *ssa.UnOp:
				if in.Op == token.ARROW {
					items = append(items, item{in, "recv", "", in.Pos(), seq})
				}
			case *ssa.MapUpdate:
				items = append(items, item{in, "mapupdate", "", in.Pos(), seq})
			case *ssa.Slice:
				if in.Pos().IsValid() {
					items = append(items, item{in, "slice", "", in.Pos(), seq})
				}
			case *ssa.Return:
				if b != fn.Recover {
					items = append(items, item{in, "return", "", in.Pos(), seq})
				}
			case *ssa.Go:
				items = append(items, item{in, "go", "", in.Pos(), seq})
			case *ssa.Store:
				if n := storeFieldName(in); n != "" {
					items = append(items, item{in, "store", n, in.Pos(), seq})
				}
			case *ssa.Call:
				items = append(items, item{in, "call", shortCallee(&in.Call), in.Pos(), seq})
			case *ssa.Defer:
				items = append(items, item{in, "defer", shortCallee(&in.Call), in.Pos(), seq})
			}
		}
	}
	// source order: by position when valid, else by block order
	sort.SliceStable(items, func(i, j int) bool {
		pi, pj := items[i].pos, items[j].pos
		if pi.IsValid() && pj.IsValid() && pi != pj {
			return pi < pj
		}
		return items[i].seq < items[j].seq
	})
	counts := map[string]int{}
	for _, it := range items {
		k := it.kind
		if it.name != "" {
			k += ":" + it.name
		}
		counts[k]++
		key := fmt.Sprintf("%s#%d", k, counts[k])
		sm.Ordinal[it.in] = counts[k]
		sm.Keys[it.in] = append(sm.Keys[it.in], key)
		sm.All[key] = it.in
		if it.kind == "defer" {
			// also addressable as call:<name>#n? no: deferred calls run later
		}
	}
	x.siteMaps[fn] = sm
	return sm
}

func shortCallee(c *ssa.CallCommon) string {
	if c.IsInvoke() {
		return c.Method.Name()
	}
	switch v := c.Value.(type) {
	case *ssa.Function:
		n := v.Name()
		return n
	case *ssa.Builtin:
		return v.Name()
	case *ssa.MakeClosure:
		return v.Fn.Name()
	}
	// call through a variable or field: use the field / variable name
	switch v := c.Value.(type) {
	case *ssa.UnOp:
		if fa, ok := v.X.(*ssa.FieldAddr); ok {
			st := fa.X.Type().Underlying().(*types.Pointer).Elem().Underlying().(*types.Struct)
			return st.Field(fa.Field).Name()
		}
		if a, ok := v.X.(*ssa.Alloc); ok && a.Comment != "" {
			return a.Comment
		}
		if fv, ok := v.X.(*ssa.FreeVar); ok {
			return fv.Name()
		}
	case *ssa.Parameter:
		return v.Name()
	case *ssa.Field:
		if st, ok := v.X.Type().Underlying().(*types.Struct); ok {
			return st.Field(v.Field).Name()
		}
	}
	return "dynamic"
}

// siteHooks runs the contract clauses attached to the site of instruction in.
func (x *Exec) siteHooks(s *State, f *Frame, in ssa.Instruction, kind, name string, bind map[string]Value, sub *string) []*State {
	if f.Spec == nil {
		return nil
	}
	keys := x.sites(f.Fn).Keys[in]
	for _, k0 := range keys {
		cands := []string{k0}
		if i := strings.LastIndex(k0, "#"); i >= 0 {
			cands = append(cands, k0[:i]+"#*")
		}
		for _, k := range cands {
			key := k
			if sub != nil {
				key = k + "." + *sub
			}
			ss := f.Spec.Sites[key]
			if ss == nil {
				continue
			}
			x.runClauses(s, f, ss.Clauses, bind, in)
		}
	}
	return nil
}

// anyReason evaluates the assertion of a wildcard site ("at call f * ..."):
// a disjunction of reasons, each of which may mention locals that exist only
// at some of the sites. A disjunct that cannot be evaluated at this site (a
// local that has no value on this path) counts as false - it cannot be the
// reason here. Dropping disjuncts only makes the assertion harder to meet.
func anyReason(env *Env, e ast.Expr) *Term {
	var ds []ast.Expr
	var split func(e ast.Expr)
	split = func(e ast.Expr) {
		switch b := e.(type) {
		case *ast.BinaryExpr:
			if b.Op == token.LOR {
				split(b.X)
				split(b.Y)
				return
			}
		case *ast.ParenExpr:
			split(b.X)
			return
		}
		ds = append(ds, e)
	}
	split(e)
	out := False
	for _, d := range ds {
		side := env.Side
		t, err := env.EvalBool(d)
		if err != nil {
			env.Side = side
			continue
		}
		out = Or(out, t)
	}
	return out
}

func (x *Exec) runClauses(s *State, f *Frame, clauses []*Clause, bind map[string]Value, in ssa.Instruction) {
	env := s.NewEnv(f)
	for k, v := range bind {
		env.Bound[k] = v
	}
	for _, c := range clauses {
		env.Side = nil
		switch c.Kind {
		case "assume":
			t, err := env.EvalBool(c.Expr)
			if err != nil {
				evalErr("%s at %s assume %s: %v", c.Func, c.Site, c.Label, err)
			}
			for _, sd := range env.Side {
				s.Assume(sd)
			}
			s.Assume(t)
			x.Sink.NoteAssume(c)
		case "assert":
			var t *Term
			var err error
			if strings.Contains(c.Site, "#*") {
				t = anyReason(env, c.Expr)
			} else {
				t, err = env.EvalBool(c.Expr)
			}
			if err != nil {
				evalErr("%s at %s assert %s: %v", c.Func, c.Site, c.Label, err)
			}
			for _, sd := range env.Side {
				s.Assume(sd)
			}
			x.Sink.Assert(s, f, c, t, in)
			s.Assume(t)
		case "ghost":
			x.ghostAssign(s, env, c)
		}
	}
}

func (x *Exec) ghostAssign(s *State, env *Env, c *Clause) {
	rhs, err := env.EvalValue(c.Expr)
	if err != nil {
		evalErr("%s ghost %q: %v", c.Func, c.Text, err)
	}
	for _, sd := range env.Side {
		s.Assume(sd)
	}
	switch lhs := c.GhostLHS.(type) {
	case *astIdent:
		old, ok := s.Ghost[lhs.Name]
		if !ok {
			evalErr("ghost assignment to undeclared %q", lhs.Name)
		}
		// cardinality bookkeeping for set updates
		if os, ok := old.(*Scalar); ok {
			if ns, ok := rhs.(*Scalar); ok && strings.HasSuffix(os.T.Sort, " Bool)") {
				x.cardUpdate(s, os.T, ns.T)
			}
		}
		s.Ghost[lhs.Name] = rhs
	case *astIndexExpr:
		// m[k] = v   or m[k][j] = v
		if rt, ok := rhs.(*Scalar); ok && strings.HasSuffix(rt.T.Sort, " Bool)") {
			if cur, err := env.EvalValue(lhs); err == nil {
				if ct, ok := cur.(*Scalar); ok {
					x.cardUpdate(s, ct.T, rt.T)
				}
			}
		}
		nv := x.ghostStore(s, env, lhs, env.toTerm(rhs))
		root := rootIdent(lhs)
		s.Ghost[root] = S(nv)
	default:
		evalErr("unsupported ghost lhs")
	}
}

func (x *Exec) ghostStore(s *State, env *Env, lhs *astIndexExpr, v *Term) *Term {
	idx := env.term(lhs.Index)
	switch b := lhs.X.(type) {
	case *astIdent:
		g, ok := s.Ghost[b.Name]
		if !ok {
			evalErr("ghost assignment to undeclared %q", b.Name)
		}
		return Store(g.(*Scalar).T, idx, v)
	case *astIndexExpr:
		inner := env.term(b) // current m[k]
		if strings.HasSuffix(inner.Sort, " Bool)") && v.Sort == SBool {
			x.cardUpdate(s, inner, Store(inner, idx, v))
		}
		return x.ghostStore(s, env, b, Store(inner, idx, v))
	}
	evalErr("unsupported ghost lhs")
	return nil
}

// cardUpdate records the relation between card(old) and card(new) for a
// single-element set update new = store(old, x, b).
func (x *Exec) cardUpdate(s *State, old, nw *Term) {
	if nw.Op == "ite" && len(nw.Args) == 3 {
		// conditional update: card distributes over the ite
		fname := "card." + sanitize(old.Sort)
		x.Ctx.DeclareFunc(fname, []string{old.Sort}, SInt)
		a, b := nw.Args[1], nw.Args[2]
		s.Assume(Eq(App(fname, SInt, nw), Ite(nw.Args[0], App(fname, SInt, a), App(fname, SInt, b))))
		if !Equal(a, old) {
			x.cardUpdate(s, old, a)
		}
		if !Equal(b, old) {
			x.cardUpdate(s, old, b)
		}
		return
	}
	if nw.Op != "store" || len(nw.Args) != 3 || !Equal(nw.Args[0], old) {
		return
	}
	fname := "card." + sanitize(old.Sort)
	x.Ctx.DeclareFunc(fname, []string{old.Sort}, SInt)
	co := App(fname, SInt, old)
	cn := App(fname, SInt, nw)
	el := nw.Args[1]
	was := Select(old, el)
	if nw.Args[2].IsTrue() {
		s.Assume(Eq(cn, Ite(was, co, Add(co, IntLit(1)))))
	} else if nw.Args[2].IsFalse() {
		s.Assume(Eq(cn, Ite(was, Sub(co, IntLit(1)), co)))
	}
	s.Assume(Ge(co, IntLit(0)))
	s.Assume(Ge(cn, IntLit(0)))
	s.Assume(Implies(was, Ge(co, IntLit(1))))
}

func argBindings(args []Value) map[string]Value {
	m := map[string]Value{}
	for i, a := range args {
		m[fmt.Sprintf("arg%d", i)] = a
	}
	return m
}

func smtStringLit(s string) string {
	var sb strings.Builder
	sb.WriteByte('"')
	for _, r := range s {
		switch {
		case r == '"':
			sb.WriteString("\"\"")
		case r < 32 || r > 126:
			sb.WriteString(fmt.Sprintf("\\u{%x}", r))
		default:
			sb.WriteRune(r)
		}
	}
	sb.WriteByte('"')
	return sb.String()
}
