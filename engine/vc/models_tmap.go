package vc

import "go/types"

// Assumed contract of golang.org/x/tools/go/types/typeutil.Map (trusted,
// listed in the evidence): a finite map from type identities to values.
//   At(m, k)      = tmap[m][k]            (nil when absent)
//   Set(m, k, v)  : tmap[m][k] := v, returns the previous tmap[m][k]
// Keys are compared by types.Identical in the library; the model identifies a
// type with its identity term, i.e. it assumes identical types are represented
// by one identity (A-typeid).

const tmapComp = "tmap@val"

var TypeMapPrelude = "typeutil.Map: At(m,k) reads, Set(m,k,v) writes and returns the previous value of a finite map keyed by type identity (identical types assumed to share one identity)"

func (x *Exec) RegisterTypeMapModels() {
	sort := SArr(SInt, SArr(SInt, SInt))
	get := func(s *State) *Term { return s.heapComp(tmapComp, sort) }
	x.Models["(*golang.org/x/tools/go/types/typeutil.Map).At"] = func(s *State, c *CallCtx) (Value, bool) {
		m, k := x.scalar(c.Args[0]), x.scalar(c.Args[1])
		return S(Select(Select(get(s), m), k)), true
	}
	x.Models["(*golang.org/x/tools/go/types/typeutil.Map).Set"] = func(s *State, c *CallCtx) (Value, bool) {
		m, k, v := x.scalar(c.Args[0]), x.scalar(c.Args[1]), x.scalar(c.Args[2])
		prev := Select(Select(get(s), m), k)
		s.setHeapComp(tmapComp, Store(get(s), m, Store(Select(get(s), m), k, v)))
		return S(prev), true
	}
	x.ModelMods["(*golang.org/x/tools/go/types/typeutil.Map).Set"] = []string{"tmap"}
	// new(typeutil.Map) / typeutil.Map{} is the empty map
	prev := x.OnAlloc
	x.OnAlloc = func(s *State, id *Term, t types.Type) {
		if prev != nil {
			prev(s, id, t)
		}
		if types.TypeString(t, nil) == "golang.org/x/tools/go/types/typeutil.Map" {
			s.setHeapComp(tmapComp, Store(get(s), id, ConstArray(SArr(SInt, SInt), IntLit(0))))
		}
	}
	x.SpecFuncs["tmapAt"] = func(e *Env, a []Value) Value {
		return S(Select(Select(get(e.S), e.toTerm(a[0])), e.toTerm(a[1])))
	}
}
