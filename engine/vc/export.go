package vc

import (
	"fmt"
	"go/token"
	"go/types"
	"sort"

	"golang.org/x/tools/go/ssa"
)

// Exported helpers for passes built on the executor.

func (s *State) ValueEq(a, b Value) *Term { return s.valueEq(a, b) }

func (s *State) HeapComp(name, sort string) *Term { return s.heapComp(name, sort) }

func (x *Exec) TypeIDByName(name string) int64 { return x.typeIDByName(name) }
func (x *Exec) TypeOf(t *Term) *Term           { return x.typeOfTerm(t) }
func (x *Exec) DataOf(t *Term) *Term           { return x.dataOfTerm(t) }

// StringOf returns the string constant interned as n ("" if unknown).
func (x *Exec) StringOf(n int64) string {
	for s, id := range x.strIDs {
		if id == n {
			return s
		}
	}
	return ""
}

func (x *Exec) Scalar(v Value) *Term { return x.scalar(v) }

func (x *Exec) NewObjectID() int64 { return x.newID() }

func (x *Exec) FuncName(fn interface{ String() string }) string { return fn.String() }

func (x *Exec) MakeInterface(s *State, v Value, from interface{ Underlying() types.Type; String() string }) Value {
	return x.makeInterface(s, v, from.(types.Type))
}

func (s *State) ZeroValue(t types.Type) Value { return s.zeroValue(t) }

// HavocCells replaces the contents of every cell whose name satisfies pred.
func (s *State) HavocCells(pred func(name string) bool) {
	for c := range s.Cells {
		if pred(c.Name) {
			s.Cells[c] = s.freshValue("havoc."+c.Name, c.Typ)
		}
	}
}

func (s *State) HavocHeap(prefix string) { s.X.havocPrefix(s, prefix) }

func (s *State) SliceSnapshot(v Value) *SliceVal { return s.sliceSnapshot(v) }

func (x *Exec) Loops(fn *ssa.Function) *LoopInfo { return x.loops(fn) }

// SiteKeys lists the contract site keys of fn with their source positions.
func (x *Exec) SiteKeys(fn *ssa.Function) []string {
	sm := x.sites(fn)
	var out []string
	for k, in := range sm.All {
		out = append(out, k+"\t"+x.Prog.Fset.Position(in.Pos()).String()+"\t"+in.String())
	}
	sort.Strings(out)
	li := x.loops(fn)
	for _, lp := range li.Loops {
		pos := ""
		best := token.NoPos
		for b := range lp.Blocks {
			for _, in := range b.Instrs {
				if in.Pos().IsValid() && (best == token.NoPos || in.Pos() < best) {
					best = in.Pos()
				}
			}
		}
		if best.IsValid() {
			pos = "first instruction at " + x.Prog.Fset.Position(best).String()
		}
		out = append(out, fmt.Sprintf("loop %d\theader block %d\t%s", lp.Ordinal, lp.Header.Index, pos))
	}
	return out
}

func (x *Exec) Paths() int { return x.paths }
