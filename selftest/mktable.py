#!/usr/bin/env python3
"""Regenerates the table of DESIGN.md section 0.6 from selftest/results.json."""
import json, os, re
V = os.path.dirname(os.path.dirname(os.path.abspath(__file__)))
r = json.load(open(os.path.join(V, "selftest", "results.json")))
rows = ["| change | own check | other checks | example obligation |", "|---|---|---|---|"]
for k in sorted(r):
    v = r[k]
    if k.startswith("neutral:"):
        continue
    d = v.get("detected_by", {})
    own = v.get("property")
    ex = ""
    src = d.get(own) or next(iter(d.values()), [])
    if src:
        ex = "`" + src[0].replace("|", "/") + "`"
    if "error" in v:
        ex = v["error"][:60]
    rows.append("| %s | %s | %s | %s |" % (k, "yes" if own in d else "**no**", " ".join(sorted(x for x in d if x != own)) or "-", ex))
neutral = sorted(k for k in r if k.startswith("neutral:"))
rows.append("")
rows.append("Harmless edits (must raise no alarm): " + "; ".join("%s: %s" % (k[8:], "no alarm" if not r[k].get("detected_by") else "FALSE ALARM " + ",".join(r[k]["detected_by"])) for k in neutral))
p = os.path.join(V, "DESIGN.md")
s = open(p).read()
s = re.sub(r"<!-- SEEDED-TABLE-BEGIN -->.*?<!-- SEEDED-TABLE-END -->", "<!-- SEEDED-TABLE-BEGIN -->\n" + "\n".join(rows) + "\n<!-- SEEDED-TABLE-END -->", s, flags=re.S)
open(p, "w").write(s)
print(len(rows) - 3, "rows")
