#!/usr/bin/env python3
"""selftest/run.py [names...]: must-fail self-test.

For every confirmed seeded change under /verif/seeded/<name>/patch.diff (and
every /verif/selftest/mutants/*.patch) a scratch copy of /repo's HEAD is
created outside /repo and /verif, the change is applied, every claimed check is
run against it (VERIF_REPO, no evidence written), and the worktree is removed.
Writes selftest/results.json: which checks raise a VIOLATION for which change.
"""
import glob, json, os, subprocess, sys, shutil

V = os.path.dirname(os.path.dirname(os.path.abspath(__file__)))
manifest = json.load(open(os.path.join(V, "MANIFEST.json")))
claimed = [c["property_id"] for c in manifest["checks"]]
base = os.environ.get("VERIF_SCRATCH", "/var/tmp")
wt = os.path.join(base, "verif-selftest-wt")
src = os.environ.get("VERIF_SELFTEST_SRC", "/repo")

def cases():
    out = []
    for d in sorted(glob.glob(os.path.join(V, "seeded", "*", "patch.diff"))):
        out.append((os.path.basename(os.path.dirname(d)), d))
    for p in sorted(glob.glob(os.path.join(V, "selftest", "mutants", "*.patch"))):
        out.append((os.path.basename(p)[:-6], p))
    # must-pass: harmless edits; any VIOLATION on these is a false alarm
    for p in sorted(glob.glob(os.path.join(V, "selftest", "neutral", "*.patch"))):
        out.append(("neutral:" + os.path.basename(p)[:-6], p))
    return out

def main():
    want = set(sys.argv[1:])
    # VERIF_SHARD=i/n: this process takes every n-th case (several shards run side by side,
    # each with its own VERIF_SCRATCH; results.json is merged under a lock)
    shard = os.environ.get("VERIF_SHARD")
    si, sn = (int(x) for x in shard.split("/")) if shard else (0, 1)
    # private copy of the engine so that rebuilding /verif/bin/cffvc meanwhile does not invalidate the pass cache
    priv = os.path.join(base, "verif-selftest-cffvc")
    shutil.copy(os.path.join(V, "bin", "cffvc"), priv)
    os.environ["VERIF_BIN"] = priv
    resf = os.path.join(V, "selftest", "results.json")
    results = {}
    for idx, (name, patch) in enumerate(cases()):
        if want and name not in want:
            continue
        if idx % sn != si:
            continue
        shutil.rmtree(wt, ignore_errors=True)
        os.makedirs(wt)
        # a plain copy of the source tree's HEAD (VERIF_SELFTEST_SRC, default /repo), outside /repo and /verif
        if os.path.exists(os.path.join(src, ".git")):
            subprocess.check_call("git -C %s archive HEAD | tar -x -C %s" % (src, wt), shell=True)
        else:
            subprocess.check_call(["rsync", "-a", "--exclude", ".git", src + "/", wt + "/"])
        try:
            r = subprocess.run(["git", "-C", wt, "apply", patch], capture_output=True, text=True)
            if r.returncode != 0:
                results[name] = {"error": "patch does not apply: " + r.stderr.strip()[:300]}
                continue
            hit = {}
            env = dict(os.environ, VERIF_REPO=wt, VERIF_NO_EVIDENCE="1")
            for pid in claimed:
                p = subprocess.run([os.path.join(V, "check"), pid], env=env, capture_output=True, text=True)
                viol = [l for l in p.stdout.splitlines() if l.startswith("VIOLATION")]
                if p.returncode != 0 or viol:
                    hit[pid] = sorted(set(l.split("obligation=")[1].split(" reason=")[0] for l in viol if "obligation=" in l))
            results[name] = {"detected_by": hit, "property": name.split("-")[0] if name[0] == "C" else None}
            if name.startswith("neutral:"):
                results[name]["expected"] = "no alarm"
                print(name, "FALSE ALARM by %s" % sorted(hit) if hit else "no alarm (as required)", flush=True)
                continue
            own = name.split("-")[0]
            print(name, "DETECTED by", sorted(hit) if hit else "NOTHING", "(own property %s: %s)" % (own, "yes" if own in hit else "no"), flush=True)
        finally:
            shutil.rmtree(wt, ignore_errors=True)
            import fcntl
            with open(resf + ".lock", "w") as lk:
                fcntl.flock(lk, fcntl.LOCK_EX)
                merged = json.load(open(resf)) if os.path.exists(resf) else {}
                merged.update(results)
                json.dump(merged, open(resf + ".tmp", "w"), indent=1, sort_keys=True)
                os.replace(resf + ".tmp", resf)

if __name__ == "__main__":
    main()
