#!/usr/bin/env python3
"""selftest/contract_mutation.py [--pass K|S] [--max N] [names...]

Mutation analysis of the CONTRACTS (not a check of /repo): every function
under contract listed below is mutated mechanically (bin/cffmut: negated
conditions, swapped operators, deleted statements, flipped ++/--), the mutant is
compiled, and the pass that carries the function's contract is run on it. A
mutant is *killed* when an obligation of the function no longer discharges; a
*survivor* is either an equivalent mutant or a behaviour the contract does not
pin down. Writes selftest/contract_mutation.json (score per function and the
list of survivors) - evidence of how much the contracts constrain the code, and
a guard against vacuous proofs."""
import json, os, subprocess, sys, shutil, re
V = os.path.dirname(os.path.dirname(os.path.abspath(__file__)))
ENV = dict(os.environ, GOFLAGS="-mod=mod", GOPROXY="off", GOSUMDB="off", GOTOOLCHAIN="local")
TARGETS = [
    # pass, file, declaration name for cffmut, -only filter, package dir
    ("K", "internal/graph.go", "toposort", "toposort", "internal"),
    ("K", "internal/compile.go", "compiler.compileFunction", "compileFunction", "internal"),
    ("K", "internal/compile.go", "compiler.compileTask", "compileTask", "internal"),
    ("K", "internal/compile.go", "compiler.compilePredicate", "compilePredicate", "internal"),
    ("K", "internal/compile.go", "compiler.scheduleFlowAndToposort", "scheduleFlowAndToposort", "internal"),
    ("K", "internal/compile.go", "compiler.validateFuncs", "validateFuncs", "internal"),
    ("K", "internal/compile.go", "compiler.validateNoUnusedOutputTypes", "validateNoUnusedOutputTypes", "internal"),
    ("K", "internal/compile.go", "compiler.compileFlow", "compileFlow", "internal"),
    ("K", "internal/compile.go", "compiler.interpretTaskOptions", "interpretTaskOptions", "internal"),
    ("K", "internal/cycle.go", "findFlowCyclesForFunc", "findFlowCyclesForFunc", "internal"),
    ("K", "internal/cycle.go", "findFlowCycles", "findFlowCycles", "internal"),
    ("K", "internal/compile_parallel.go", "compiler.compileSlice", "compileSlice", "internal"),
    ("K", "internal/compile_parallel.go", "compiler.compileMap", "compileMap", "internal"),
    ("K", "internal/compile_parallel.go", "compiler.compileParallel", "compileParallel", "internal"),
    ("K", "internal/compile_parallel.go", "compiler.compileParallelTaskFn", "compileParallelTaskFn", "internal"),
    ("K", "internal/compile_parallel.go", "compiler.applySliceOptions", "applySliceOptions", "internal"),
    ("K", "internal/compile_parallel.go", "compiler.compileMapEnd", "compileMapEnd", "internal"),
    ("K", "internal/compile_parallel.go", "compiler.compileSliceEnd", "compileSliceEnd", "internal"),
    ("K", "internal/compile_parallel.go", "checkParallelTask", "checkParallelTask", "internal"),
    ("K", "internal/gen.go", "printImportAlias", "printImportAlias", "internal"),
    ("K", "internal/gen.go", "generator.typeID", "(*generator).typeID", "internal"),
    ("K", "internal/gen.go", "generator.predID", "predID", "internal"),
    ("K", "internal/gen.go", "generator.GenerateFile", "(*generator).GenerateFile", "internal"),
    ("K", "internal/types.go", "isContext", "isContext", "internal"),
    ("K", "internal/types.go", "isError", "isError", "internal"),
    ("K", "internal/buildtag.go", "writeInvertedCffTag", "writeInvertedCffTag", "internal"),
    ("K", "cmd/cff/main.go", "genFilename", "genFilename", "cmd/cff"),
    ("S", "scheduler/scheduler.go", "worker", "worker", "scheduler"),
    ("S", "scheduler/scheduler.go", "Scheduler.Wait", "(*Scheduler).Wait", "scheduler"),
    ("S", "scheduler/scheduler.go", "Scheduler.Enqueue", "(*Scheduler).Enqueue", "scheduler"),
    ("S", "scheduler/scheduler.go", "Config.New", "New", "scheduler"),
    ("S", "scheduler/scheduler.go", "idleWorkers", "idleWorkers", "scheduler"),
    ("S", "emitter_stack.go", "EmitterStack", "EmitterStack", "."),
    ("S", "scheduler/scheduler.go", "Scheduler.run", "(*Scheduler).run", "scheduler"),
]

def main():
    args = sys.argv[1:]
    only_pass, maxn, names = None, 10**9, []
    i = 0
    while i < len(args):
        if args[i] == "--pass":
            only_pass = args[i + 1]; i += 2
        elif args[i] == "--max":
            maxn = int(args[i + 1]); i += 2
        else:
            names.append(args[i]); i += 1
    scratch = os.path.join(os.environ.get("VERIF_SCRATCH", "/var/tmp"), "verif-cmut")
    shutil.rmtree(scratch, ignore_errors=True)
    os.makedirs(scratch)
    subprocess.check_call("git -C %s archive HEAD | tar -x -C %s" % (os.environ.get("VERIF_SELFTEST_SRC", "/repo"), scratch), shell=True)
    outp = os.path.join(V, "selftest", "contract_mutation.json")
    res = json.load(open(outp)) if os.path.exists(outp) else {}
    cffvc, cffmut = os.path.join(V, "bin", "cffvc"), os.path.join(V, "bin", "cffmut")
    for pas, file, decl, only, pkgdir in TARGETS:
        if only_pass and pas != only_pass:
            continue
        if names and decl not in names:
            continue
        src = os.path.join(scratch, file)
        orig = open(src).read()
        lst = subprocess.run([cffmut, "-file", src, "-func", decl, "-list"], capture_output=True, text=True).stdout.strip().splitlines()
        n = len(lst)
        step = max(1, n // maxn) if maxn < n else 1
        rec = {"mutants": 0, "not_compiling": 0, "killed": 0, "survivors": []}
        for k in range(0, n, step):
            desc = lst[k].split("\t", 1)[1]
            try:
                p = subprocess.run([cffmut, "-file", src, "-func", decl, "-apply", str(k), "-out", src], capture_output=True, text=True)
                if p.returncode != 0:
                    continue
                b = subprocess.run(["go", "build", "./" + pkgdir], cwd=scratch, env=ENV, capture_output=True, text=True)
                v = subprocess.run(["go", "vet", "./" + pkgdir], cwd=scratch, env=ENV, capture_output=True, text=True) if b.returncode == 0 else b
                if b.returncode != 0 or "declared and not used" in v.stderr:
                    rec["not_compiling"] += 1
                    continue
                rec["mutants"] += 1
                r = subprocess.run([cffvc, "pass" + pas, "-repo", scratch, "-only", only, "-timeout", "5"], env=ENV, capture_output=True, text=True)
                out = r.stdout + r.stderr
                killed = bool(re.search(r"^(violated|undecided|vacuous)\s", out, re.M)) or "UNGENERATED" in out or "STALE" in out or r.returncode != 0
                if killed:
                    rec["killed"] += 1
                else:
                    rec["survivors"].append(desc)
            finally:
                open(src, "w").write(orig)
        rec["score"] = round(rec["killed"] / rec["mutants"], 3) if rec["mutants"] else None
        res[decl] = rec
        print(decl, rec["mutants"], "mutants,", rec["killed"], "killed, survivors:", rec["survivors"], flush=True)
        json.dump(res, open(outp, "w"), indent=1, sort_keys=True)
    shutil.rmtree(scratch, ignore_errors=True)

if __name__ == "__main__":
    main()
