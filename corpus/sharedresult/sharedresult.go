//go:build cff
// +build cff

// Package sharedresult is part of the verification corpus.
package sharedresult

import (
	"context"
	"strconv"

	"go.uber.org/cff"
)

type Extra struct{ E string }

// SharedResult: two cff.Results options; the type of the first target is also
// consumed by a task.
func SharedResult(ctx context.Context, a string) (n int64, e *Extra, err error) {
	err = cff.Flow(ctx,
		cff.Params(a),
		cff.Results(&n),
		cff.Results(&e),
		cff.Task(func(s string) (int64, error) {
			i, err := strconv.ParseInt(s, 10, 64)
			return i, err
		}),
		cff.Task(func(v int64) *Extra { return &Extra{E: strconv.FormatInt(v, 10)} }),
	)
	return
}

