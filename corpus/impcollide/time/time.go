// Package time is the application's own package called time: it collides with
// the standard time package generated code imports for durations.
package time

func Stamp(n int) int { return n + 1 }
