//go:build cff
// +build cff

// Package impcollide is part of the verification corpus: the file imports
// application packages whose local names (debug, time) are the names of
// packages the generated code has to import itself, and every directive refers
// to those generated imports more than once (two tasks; task and slice).
package impcollide

import (
	"context"

	"go.uber.org/cff"
	"go.uber.org/cff/internal/tests/zzcorpus/impcollide/debug"
	"go.uber.org/cff/internal/tests/zzcorpus/impcollide/time"
)

func Flow(ctx context.Context, s string) (out int, err error) {
	err = cff.Flow(ctx,
		cff.Params(s),
		cff.Results(&out),
		cff.Task(func(s string) (int64, error) { return int64(len(debug.Tag(s))), nil }),
		cff.Task(func(n int64) int { return time.Stamp(int(n)) }),
	)
	return
}

func Par(ctx context.Context, xs []string, sink func(string)) error {
	return cff.Parallel(ctx,
		cff.Task(func() { sink(debug.Tag("t")) }),
		cff.Slice(func(i int, s string) error { sink(debug.Tag(s)); _ = time.Stamp(i); return nil }, xs),
	)
}
