// Package debug is the application's own package called debug: it collides
// with runtime/debug, which generated code imports for stack traces.
package debug

func Tag(s string) string { return "[" + s + "]" }
