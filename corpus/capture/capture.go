//go:build cff
// +build cff

// Package capture is part of the verification corpus: user identifiers named
// like the names generated code introduces.
package capture

import (
	"context"
	"errors"

	"go.uber.org/cff"
)

// UsesErr passes the caller's variable err as a flow input.
func UsesErr(ctx context.Context, err error) (msg string, ferr error) {
	ferr = cff.Flow(ctx,
		cff.Params(err),
		cff.Results(&msg),
		cff.Task(func(e error) string {
			if e == nil {
				return "nil"
			}
			return e.Error()
		}),
	)
	return
}

// UsesGeneratedNames uses local identifiers named like generated ones in
// directive arguments.
func UsesGeneratedNames(ctx context.Context) (out int64, ferr error) {
	sched := 3
	tasks := []int{1, 2}
	emitter := errors.New("x")
	ferr = cff.Flow(ctx,
		cff.Params(sched, tasks, emitter),
		cff.Results(&out),
		cff.Task(func(n int, ts []int, e error) int64 { return int64(n + len(ts) + len(e.Error())) }),
	)
	return
}

// ParallelUsesErr: same in a Parallel.
func ParallelUsesErr(ctx context.Context, err error, sink *string) error {
	return cff.Parallel(ctx,
		cff.Slice(func(i int, e error) { *sink += e.Error() }, []error{err}),
	)
}
