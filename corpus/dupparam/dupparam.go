//go:build cff
// +build cff

// Package dupparam is part of the verification corpus: task and predicate
// functions that take the same type more than once, next to a different type
// that is assignable to it.
package dupparam

import (
	"context"

	"go.uber.org/cff"
)

type IDs []int

type Merged struct {
	Left, Right []int
	Extra       IDs
}

func provideInts() []int { return []int{1, 2, 3} }

func provideIDs() IDs { return IDs{7, 8, 9} }

func merge(left []int, right []int, extra IDs) *Merged {
	return &Merged{Left: left, Right: right, Extra: extra}
}

// Merge: one provider for []int, one for IDs; merge takes []int twice.
func Merge(ctx context.Context, n int) (out *Merged, err error) {
	err = cff.Flow(ctx,
		cff.Concurrency(n),
		cff.Results(&out),
		cff.Task(merge),
		cff.Task(provideIDs),
		cff.Task(provideInts),
	)
	return
}

// Gated: the predicate repeats a parameter type as well.
func Gated(ctx context.Context, a []int, b IDs) (s string, err error) {
	err = cff.Flow(ctx,
		cff.Params(a, b),
		cff.Results(&s),
		cff.Task(
			func(x []int, y []int, z IDs) (string, error) {
				if len(x)+len(y) > len(z) {
					return "long", nil
				}
				return "short", nil
			},
			cff.Predicate(func(p []int, q []int, r IDs) bool { return len(p)+len(q)+len(r) > 0 }),
		),
	)
	return
}
