//go:build cff
// +build cff

// Package pkgvar is part of the verification corpus: directives that are not
// inside a function declaration but in the initialiser of a package-level
// variable (a function literal stored in a variable, and in a map of handlers),
// plus one in a method and one in a generic function for contrast.
package pkgvar

import (
	"context"
	"strconv"

	"go.uber.org/cff"
)

type Handler func(ctx context.Context, in string) (int, error)

var Parse Handler = func(ctx context.Context, in string) (out int, err error) {
	err = cff.Flow(ctx,
		cff.Params(in),
		cff.Results(&out),
		cff.Task(func(s string) (int64, error) { return strconv.ParseInt(s, 10, 64) }),
		cff.Task(func(n int64) int { return int(n) }),
	)
	return
}

var Handlers = map[string]func(context.Context, []string, func(string)) error{
	"each": func(ctx context.Context, xs []string, sink func(string)) error {
		return cff.Parallel(ctx,
			cff.Slice(func(s string) { sink(s) }, xs),
		)
	},
}

type svc struct{ base int }

func (s *svc) Add(ctx context.Context, n int) (r int64, err error) {
	err = cff.Flow(ctx,
		cff.Params(n),
		cff.Results(&r),
		cff.Task(func(n int) int64 { return int64(n + s.base) }),
	)
	return
}
