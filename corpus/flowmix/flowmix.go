//go:build cff
// +build cff

// Package flowmix is part of the verification corpus: directive programs that
// exercise template branches the repository's own programs do not.
package flowmix

import (
	"context"
	"errors"
	"strconv"
	tm "time"

	"go.uber.org/cff"
)

type Config struct{ N int }
type Report struct{ S string }
type Extra struct{ E string }

// SharedInputPredicate: the predicate and the task it guards both consume the
// value produced by another task.
func SharedInputPredicate(ctx context.Context, seed int) (r *Report, err error) {
	err = cff.Flow(ctx,
		cff.Params(seed),
		cff.Results(&r),
		cff.Task(func(n int) (*Config, error) { return &Config{N: n}, nil }),
		cff.Task(
			func(c *Config) *Report { return &Report{S: strconv.Itoa(c.N)} },
			cff.Predicate(func(c *Config) bool { return c.N > 0 }),
		),
	)
	return
}

// TwoResults: two cff.Results options and a multi-output task whose two
// outputs feed one consumer together with a third provider.
func TwoResults(ctx context.Context, a string) (n int64, e *Extra, err error) {
	err = cff.Flow(ctx,
		cff.Params(a),
		cff.Results(&n),
		cff.Results(&e),
		cff.Task(func(s string) (int, uint8, error) {
			i, err := strconv.Atoi(s)
			return i, uint8(i), err
		}),
		cff.Task(func(s string) *Config { return &Config{N: len(s)} }),
		cff.Task(func(i int, u uint8, c *Config) (int64, *Extra) {
			return int64(i) + int64(u) + int64(c.N), &Extra{E: "x"}
		}),
	)
	return
}

type emitterHolder struct{ e cff.Emitter }

var Epoch tm.Time

// Instrumented: emitters, instrument names, predicate with context, fallback
// values, an Invoke task, a parameter of type error, package time imported
// under another name.
func Instrumented(ctx context.Context, h emitterHolder, cause error, limit int) (out string, err error) {
	err = cff.Flow(ctx,
		cff.Params(cause, limit),
		cff.Results(&out),
		cff.WithEmitter(h.e),
		cff.InstrumentFlow("instrumented"),
		cff.Concurrency(limit+1),
		cff.Task(
			func(ctx context.Context, e error) (*Config, error) {
				if e != nil {
					return nil, e
				}
				return &Config{N: 1}, nil
			},
			cff.FallbackWith(&Config{N: -1}),
			cff.Instrument("config"),
		),
		cff.Task(
			func(c *Config, n int) (string, error) {
				if n < 0 {
					return "", errors.New("negative")
				}
				return Epoch.String() + strconv.Itoa(c.N+n), nil
			},
			cff.Predicate(func(ctx context.Context, n int) bool { return ctx.Err() == nil && n != 0 }),
			cff.Instrument("render"),
		),
		cff.Task(
			func(c *Config) {},
			cff.Invoke(true),
			cff.Instrument("audit"),
		),
	)
	return
}
