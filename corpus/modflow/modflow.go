//go:build cff
// +build cff

// Package modflow is part of the verification corpus: flows of the subset that
// -genmode modifier supports (Params, Results, Concurrency, plain Tasks). It is
// generated in base mode and in modifier mode.
package modflow

import (
	"context"
	"errors"
	"strconv"

	"go.uber.org/cff"
)

type Session struct {
	Ctx context.Context
	N   int64
}

// Diamond: two parameters, a diamond of tasks, two results, context-taking
// tasks whose result keeps the context.
type Label string

func Diamond(ctx context.Context, a string, n int) (s *Session, out Label, err error) {
	err = cff.Flow(ctx,
		cff.Params(a, n),
		cff.Results(&s, &out),
		cff.Concurrency(n),
		cff.Task(func(x string) (int64, error) { return strconv.ParseInt(x, 10, 64) }),
		cff.Task(func(ctx context.Context, v int64) *Session { return &Session{Ctx: ctx, N: v} }),
		cff.Task(func(v int64, k int) (float64, error) {
			if k == 0 {
				return 0, errors.New("zero")
			}
			return float64(v) / float64(k), nil
		}),
		cff.Task(func(ctx context.Context, s *Session, f float64) (Label, error) {
			return Label(strconv.FormatInt(s.N, 10) + strconv.FormatFloat(f, 'f', 2, 64)), ctx.Err()
		}),
	)
	return
}

// Compact: several options on one line and the next line starting at a smaller
// column; Concurrency and the single int parameter have the same helper type.
func Compact(ctx context.Context, n int) (out int64, err error) {
	err = cff.Flow(ctx, cff.Results(&out), cff.Params(n),
cff.Concurrency(2),
		cff.Task(func(k int) (int64, error) { return int64(k) * 2, nil }))
	return
}

// Shortcut: the last task consumes the result of the first task both directly
// and through the second one (an edge that is implied by a path).
func Shortcut(ctx context.Context, a string) (out Label, err error) {
	err = cff.Flow(ctx,
		cff.Params(a),
		cff.Results(&out),
		cff.Task(func(x string) (int64, error) { return strconv.ParseInt(x, 10, 64) }),
		cff.Task(func(v int64) float64 { return float64(v) / 2 }),
		cff.Task(func(v int64, f float64) Label {
			return Label(strconv.FormatInt(v, 10) + strconv.FormatFloat(f, 'f', 2, 64))
		}),
	)
	return
}
