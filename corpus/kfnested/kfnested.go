//go:build cff
// +build cff

// Package kfnested is a known-finding program (see /verif/known_findings.json):
// a directive nested inside a task function literal.
package kfnested

import (
	"context"
	"strconv"

	"go.uber.org/cff"
)

func Nested(ctx context.Context) (s string, err error) {
	err = cff.Flow(ctx,
		cff.Results(&s),
		cff.Task(func() (string, error) {
			var n int
			err := cff.Flow(ctx,
				cff.Results(&n),
				cff.Task(func() int { return 41 }),
			)
			return strconv.Itoa(n + 1), err
		}),
	)
	return
}
