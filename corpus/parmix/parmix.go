//go:build cff
// +build cff

// Package parmix is part of the verification corpus (Parallel shapes).
package parmix

import (
	"bytes"
	"context"
	"io"
	"sync/atomic"

	"go.uber.org/cff"
)

type Names []string

// NoIndexWithEnd: element-only Slice function together with a SliceEnd.
func NoIndexWithEnd(ctx context.Context, xs Names, total *int64) error {
	return cff.Parallel(ctx,
		cff.Slice(func(s string) { atomic.AddInt64(total, int64(len(s))) }, xs,
			cff.SliceEnd(func() { atomic.AddInt64(total, 1000) })),
	)
}

// Mixed: every kind of Parallel option in one directive, with a
// ContinueOnError expression and a Concurrency expression.
func Mixed(ctx context.Context, keep bool, workers int, bufs []*bytes.Buffer, m map[string]int, e cff.Emitter, sink *int64) error {
	return cff.Parallel(ctx,
		cff.WithEmitter(e),
		cff.InstrumentParallel("mixed"),
		cff.Concurrency(workers),
		cff.ContinueOnError(keep && workers > 0),
		cff.Task(func() error { atomic.AddInt64(sink, 1); return nil }, cff.Instrument("t1")),
		cff.Tasks(
			func(ctx context.Context) { atomic.AddInt64(sink, 2) },
			func() { atomic.AddInt64(sink, 3) },
		),
		cff.Slice(func(ctx context.Context, i int, r io.Reader) error {
			_, err := io.Copy(io.Discard, r)
			atomic.AddInt64(sink, int64(i))
			return err
		}, bufs),
		cff.Map(func(ctx context.Context, k string, v int) error {
			atomic.AddInt64(sink, int64(len(k)+v))
			return nil
		}, m),
	)
}

// MapWithEnd: Map with a MapEnd hook that takes a context and returns an error.
func MapWithEnd(ctx context.Context, m map[int]*bytes.Buffer, done *int32) error {
	return cff.Parallel(ctx,
		cff.Map(func(k int, w io.Writer) { w.Write([]byte{byte(k)}) }, m,
			cff.MapEnd(func(ctx context.Context) error {
				atomic.StoreInt32(done, 1)
				return ctx.Err()
			})),
	)
}
