//go:build cff
// +build cff

// Package kfshadow is a known-finding program (see /verif/known_findings.json):
// a parameter of the enclosing function is named like a package the generated
// code refers to.
package kfshadow

import (
	"context"
	"strconv"

	"go.uber.org/cff"
)

func Shadow(ctx context.Context, debug int) (s string, err error) {
	err = cff.Flow(ctx,
		cff.Params(debug),
		cff.Results(&s),
		cff.Task(func(d int) string { return strconv.Itoa(d) }),
	)
	return
}
